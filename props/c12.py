"""C12 Dictionary, JSON and file round-trips preserve the model."""
import copy
import json
import os
import shutil
import tempfile
from fractions import Fraction as F

import numpy as np
from hypothesis import strategies as st

from vlib import canon, gen, si, sim
from vlib import build_model as B
from vlib.ratelaw import Model
from vlib.runner import Facet, Violation, sut_call, VERIF
from vlib import sut  # noqa: F401
import strengths as S
from strengths import rdnetwork as RN, rdspace as RS, rdsystem as RSY, rdscript as RSC

PROPERTY = "C12"
RULE = ("Hypothesis objects built by constructors from specs with a unit system per nesting level (all "
        "1100 systems; graph nodes and edges with their own units), per-environment dictionaries, "
        "labelled and unlabelled reactions, empty sides, every boundary-condition mix, explicit or default "
        "state and chemostat map, scripts with every sampling policy / processing mode / explicit or "
        "default t_max / seed. Routes: to_dict -> from_dict; through json.dumps/loads; save_* -> load_* in "
        "a scratch directory with the process cwd elsewhere; hand-assembled multi-file layouts (system.json "
        "-> 'network.json', 'sub/space.json', cell_env as .txt / .npy, state {'value': 'x.npy'}, "
        "chemostats file; relative and absolute paths); trajectories with separate_data True/False. Oracle: "
        "canon(original) == canon(reloaded) (labels, environments, per-environment SI values rtol 1e-12, "
        "stoichiometry, geometry, state, map, unit system at every level, sampling parameters, processing "
        "mode, seed, t, data); to_dict(reloaded) == to_dict(original); any alias of any key gives the same "
        "canon; omitted keys take the documented default. Non-trivial: >= 2 levels with different unit "
        "systems and a per-environment dictionary (and a relative nested path for the multi-file route).")
ASSUMPTIONS = ["canonical content read through public attributes (vlib/canon.py) and the SI table",
               "defaults taken from documentation/json_and_dict_doc.rst where the reader has the key"]

WORK = os.path.join(VERIF, ".work")


def scratch():
    os.makedirs(WORK, exist_ok=True)
    return tempfile.mkdtemp(prefix="c12-", dir=WORK)


def jsonable(d, what):
    try:
        return json.loads(json.dumps(d))
    except Exception as e:  # noqa: BLE001
        raise Violation("%s is not JSON-serialisable: %s" % (what, e), key="json:" + what.split("(")[0])


def same(a, b, what, key):
    d = canon.diff(a, b)
    if d:
        raise Violation("%s: %s" % (what, d), key=key)


def n_unit_systems(spec):
    sp = spec["space"]
    levels = [spec["sys_units"], spec["net_units"], sp["units"]] + [s["units"] for s in spec["species"]] + \
             [r["units"] for r in spec["reactions"]]
    if sp["type"] == "graph":
        levels += [n["units"] for n in sp["nodes"]] + [e["units"] for e in sp["edges"]]
    return len({tuple(sorted(l["sys"].items())) for l in levels})


def has_env_dict(spec):
    for s in spec["species"]:
        if not B.is_qv(s["D"]) or not B.is_qv(s["density"]) or isinstance(s["chstt"], dict):
            return True
    for r in spec["reactions"]:
        if not B.is_qv(r["kf"]) or not B.is_qv(r["kr"]):
            return True
    return False


def classes(spec):
    sp = spec["space"]
    cl = ["space:" + sp["type"], "unit-systems:%d" % min(n_unit_systems(spec), 5)]
    if has_env_dict(spec):
        cl.append("per-env-dict")
    if sp["type"] == "graph":
        if any(e["units"]["sys"] != sp["units"]["sys"] for e in sp["edges"]):
            cl.append("edge-own-units")
        if any(n["units"]["sys"] != sp["units"]["sys"] for n in sp["nodes"]):
            cl.append("node-own-units")
    if any(r.get("label") for r in spec["reactions"]):
        cl.append("labelled-reaction")
    if any(not r["sub"] or not r["prod"] for r in spec["reactions"]):
        cl.append("empty-side")
    return cl


def nontrivial(spec):
    return n_unit_systems(spec) >= 2 and has_env_dict(spec)


sys_strategy = dict(variety="any", max_species=3, max_reactions=3, max_order=3, max_cells=8, max_axis=3,
                    chemostats="mixed", simple_graph=False)


# ---- generic round-trip driver ------------------------------------------------------------------------

def roundtrip(obj, kind, route, tmp):
    """-> reloaded object"""
    to_dict = {"network": RN.rdnetwork_to_dict, "space": RS.rdspace_to_dict, "system": RSY.rdsystem_to_dict,
               "script": RSC.rdscript_to_dict}[kind]
    from_dict = {"network": RN.rdnetwork_from_dict, "space": RS.rdspace_from_dict, "system": RSY.rdsystem_from_dict,
                 "script": RSC.rdscript_from_dict}[kind]
    if route in ("dict", "json"):
        d = sut_call("%s_to_dict" % kind, to_dict, obj)
        if route == "json":
            d = jsonable(d, "%s_to_dict(...)" % kind)
        return sut_call("%s_from_dict(%s_to_dict(x))" % (kind, kind), from_dict, copy.deepcopy(d)), d
    path = os.path.join(tmp, "obj.json")
    save = {"network": S.save_rdnetwork, "space": S.save_rdspace, "system": S.save_rdsystem, "script": S.save_rdscript}[kind]
    load = {"network": S.load_rdnetwork, "space": S.load_rdspace, "system": S.load_rdsystem, "script": S.load_rdscript}[kind]
    sut_call("save_rd%s(x, path)" % kind, save, obj, path)
    if not os.path.exists(path):
        raise Violation("save_rd%s wrote no file" % kind, key="file:not-written")
    with open(path, encoding="utf-8") as f:
        d = json.load(f)
    return sut_call("load_rd%s(path)" % kind, load, path), d


def check_roundtrip(obj, kind, route, canon_fn):
    tmp = scratch() if route == "file" else None
    try:
        back, d = roundtrip(obj, kind, route, tmp)
        same(canon_fn(obj), canon_fn(back), "%s round trip via %s" % (kind, route), "roundtrip:%s" % kind)
        to_dict = {"network": RN.rdnetwork_to_dict, "space": RS.rdspace_to_dict, "system": RSY.rdsystem_to_dict,
                   "script": RSC.rdscript_to_dict}[kind]
        d1 = jsonable(sut_call("%s_to_dict(original)" % kind, to_dict, obj), "%s_to_dict(original)" % kind)
        d2 = jsonable(sut_call("%s_to_dict(reloaded)" % kind, to_dict, back), "%s_to_dict(reloaded)" % kind)
        if d1 != d2:
            raise Violation("%s: serialising the reloaded object gives a different dictionary: %s" % (
                kind, first_diff(d1, d2)), key="idempotence:%s" % kind)
    finally:
        if tmp:
            shutil.rmtree(tmp, ignore_errors=True)


def first_diff(a, b, path=""):
    if type(a) is not type(b):
        return "%s: %r vs %r" % (path, a, b)
    if isinstance(a, dict):
        if set(a) != set(b):
            return "%s: keys %s vs %s" % (path, sorted(a), sorted(b))
        for k in a:
            d = first_diff(a[k], b[k], path + "." + str(k))
            if d:
                return d
        return None
    if isinstance(a, list):
        if len(a) != len(b):
            return "%s: length %d vs %d" % (path, len(a), len(b))
        for i, (x, y) in enumerate(zip(a, b)):
            d = first_diff(x, y, "%s[%d]" % (path, i))
            if d:
                return d
        return None
    return None if a == b else "%s: %r vs %r" % (path, a, b)


route_st = st.sampled_from(["dict", "json", "file"])


# ---- network / space / system ---------------------------------------------------------------------------

def strat_parts(ctx):
    return st.fixed_dictionaries({"sys": gen.system_spec(**sys_strategy), "route": route_st,
                                  "what": st.sampled_from(["network", "space", "system", "system"])})


def check_parts(ctx, c):
    spec = c["sys"]
    ctx.note(c, nontrivial(spec), classes(spec) + ["route:" + c["route"], "object:" + c["what"]])
    if c["what"] == "network":
        obj = sut_call("build network", B.build_network, spec)
        check_roundtrip(obj, "network", c["route"], canon.network)
    elif c["what"] == "space":
        obj = sut_call("build space", B.build_space, spec["space"])
        check_roundtrip(obj, "space", c["route"], canon.space)
    else:
        obj = sut_call("build system", B.build_system, spec, "ctor")
        check_roundtrip(obj, "system", c["route"], canon.system)


# ---- scripts ---------------------------------------------------------------------------------------------

@st.composite
def script_case(draw):
    spec = draw(gen.system_spec(**dict(sys_strategy, max_cells=6)))
    U = draw(gen.units_level(gen.DEFAULT, "any"))
    n = draw(st.integers(1, 5))
    ts = sorted(draw(st.lists(st.integers(0, 1000), min_size=n, max_size=n)))
    return {"sys": spec, "units": U,
            "t_sample": [gen.fs(F(v, 8)) for v in ts],
            "t_sample_form": draw(st.sampled_from(["list", "unitarray", "nparray"])),
            "t_unit": draw(st.sampled_from(si.TIME_SYMS)),
            "time_step": draw(gen.qv(draw(gen.mantissa()) * F(10) ** draw(st.integers(-5, -1)), "any")),
            "t_max": draw(st.one_of(st.none(), gen.qv(draw(gen.mantissa()) * F(10) ** draw(st.integers(-2, 2)), "any"))),
            "policy": draw(st.sampled_from(["on_t_sample", "on_iteration", "on_interval", "no_sampling"])),
            "interval": draw(gen.qv(draw(gen.mantissa()) * F(10) ** draw(st.integers(-3, 1)), "any")),
            "seed": draw(st.one_of(st.none(), st.integers(0, 2 ** 32 - 1))),
            "mode": draw(st.sampled_from(["auto", "none", "Poisson", "redist"])),
            "route": draw(route_st)}


def build_script(c):
    system = B.build_system(c["sys"], "ctor")
    usys_ = c["units"]["sys"]
    ts_si = [gen.pf(v) for v in c["t_sample"]]
    if c["t_sample_form"] == "list":
        ts = [float(v / si.TIME[usys_["time"]]) for v in ts_si]
    elif c["t_sample_form"] == "nparray":
        ts = np.array([float(v / si.TIME[usys_["time"]]) for v in ts_si])
    else:
        ts = S.UnitArray([float(v / si.TIME[c["t_unit"]]) for v in ts_si], c["t_unit"])
    kw = {}
    if c["t_max"] is not None:
        kw["t_max"] = B.qv_obj(c["t_max"], usys_, gen.DIM_TIME, "ctor")
    return S.RDScript(system, ts, time_step=B.qv_obj(c["time_step"], usys_, gen.DIM_TIME, "ctor"),
                      sampling_policy=c["policy"], sampling_interval=B.qv_obj(c["interval"], usys_, gen.DIM_TIME, "ctor"),
                      rng_seed=c["seed"], init_state_processing=c["mode"], units_system=B.US(usys_), **kw)


def strat_script(ctx):
    return script_case()


def check_script(ctx, c):
    spec = c["sys"]
    ctx.note(c, nontrivial(spec), classes(spec) + ["route:" + c["route"], "policy:" + c["policy"], "mode:" + c["mode"],
                                                   "t_max:" + ("default" if c["t_max"] is None else "explicit"),
                                                   "seed:" + ("none" if c["seed"] is None else "given")])
    sc = sut_call("build script", build_script, c)
    check_roundtrip(sc, "script", c["route"], canon.script)


# ---- trajectories ----------------------------------------------------------------------------------------

def strat_traj(ctx):
    return st.fixed_dictionaries({"script": script_case(), "separate": st.booleans(), "simulated": st.booleans(),
                                  "nsamp": st.integers(1, 4), "qunit": st.sampled_from(si.QUANTITY_SYMS),
                                  "tunit": st.sampled_from(si.TIME_SYMS), "name": st.sampled_from(["out", "out.json", "tr aj", "x.y"]),
                                  "cgmap": st.booleans(),
                                  # the trajectory carries a system of its own, different from its script's (as after a
                                  # coarse-grained run, where the script holds the coarse system and the trajectory the fine one)
                                  "own_system": st.booleans()})


def check_traj(ctx, c):
    sc_case = dict(c["script"])
    spec = sc_case["sys"]
    ctx.note(c, nontrivial(spec), classes(spec) + ["separate_data" if c["separate"] else "inline_data",
                                                   "simulated" if c["simulated"] else "constructed"])
    if c["simulated"]:
        sc_case["policy"] = "on_iteration"
        sc_case["mode"] = "auto"
        sc = sut_call("build script", build_script, sc_case)
        tr, _, _ = sut_call("engine run", sim.drive, sc, "euler", 3)
    else:
        sc = sut_call("build script", build_script, sc_case)
        n = sc.system.state_size()
        data = S.UnitArray([float(k) * 1.5 + 0.1 for k in range(n * c["nsamp"])], c["qunit"])
        t = S.UnitArray([float(k) for k in range(c["nsamp"])], c["tunit"])
        cg = list(range(sc.system.space.size())) if c["cgmap"] else None
        tsys = sc.system
        if c.get("own_system"):
            tsys = sc.system.copy()
            tsys.set_state(0, 0, S.UnitValue(12345.0, "molecule"))
            tsys.set_chemostat(0, 0, 1 - int(tsys.get_chemostat(0, 0)))
        tr = S.RDTrajectory(data=data, t_sample=t, system=tsys, script=sc, engine_description="desc", engine_option="euler", cgmap=cg)
    tmp = scratch()
    try:
        path = os.path.join(tmp, c["name"])
        sut_call("save_rdtrajectory", S.save_rdtrajectory, tr, path, c["separate"])
        jpath = path if path.endswith(".json") else path + ".json"
        if not os.path.exists(jpath):
            raise Violation("save_rdtrajectory(%r) did not write %s" % (c["name"], os.path.basename(jpath)), key="traj:file")
        back = sut_call("load_rdtrajectory", S.load_rdtrajectory, jpath)
        same(canon.trajectory(tr), canon.trajectory(back), "trajectory save/load (separate_data=%s)" % c["separate"], "roundtrip:trajectory")
    finally:
        shutil.rmtree(tmp, ignore_errors=True)


# ---- multi-file layouts -----------------------------------------------------------------------------------

def strat_multi(ctx):
    return st.fixed_dictionaries({"sys": gen.system_spec(**dict(sys_strategy, space_kind="grid", state="explicit", chemostats="map")),
                                  "net_path": st.sampled_from(["network.json", "sub/network.json", "ABS"]),
                                  "space_path": st.sampled_from(["space.json", "sub/space.json", "sub/deeper/space.json", "ABS"]),
                                  "env_file": st.sampled_from([None, "env.txt", "sub/env.npy", "env.npy", "ABS.txt"]),
                                  "state_file": st.sampled_from([None, "x.npy", "sub/x.npy", "ABS.npy"]),
                                  "chem_file": st.sampled_from([None, "c.txt", "sub/c.npy", "ABS.txt"]),
                                  "via_script": st.booleans()})


def check_multi(ctx, c):
    spec = c["sys"]
    rel_nested = any(isinstance(c[k], str) and "/" in c[k] for k in ("net_path", "space_path", "env_file", "state_file", "chem_file"))
    ctx.note(c, nontrivial(spec) and rel_nested, classes(spec) + ["multi-file"] + (["relative-nested-path"] if rel_nested else []) +
             (["absolute-path"] if any(isinstance(c[k], str) and c[k].startswith("ABS") for k in ("net_path", "space_path", "env_file", "state_file", "chem_file")) else []))
    ref = sut_call("build reference system", B.build_system, spec, "dict")
    tmp = scratch()
    try:
        def place(rel, default_name):
            if rel.startswith("ABS"):
                p = os.path.join(tmp, "abs_" + default_name)
                return p, p
            p = os.path.join(tmp, rel)
            os.makedirs(os.path.dirname(p), exist_ok=True)
            return p, rel
        d = B.system_dict(spec)
        net_d, space_d = d["network"], d["space"]
        # space: optional external cell_env file, path relative to the SPACE file's directory
        sp_file, sp_ref = place(c["space_path"], "space.json")
        if c["env_file"]:
            name = c["env_file"]
            if name.startswith("ABS"):
                envp = os.path.join(tmp, "abs_env" + name[3:])
                env_ref = envp
            else:
                envp = os.path.join(os.path.dirname(sp_file), name)
                os.makedirs(os.path.dirname(envp), exist_ok=True)
                env_ref = name
            ce = space_d["cell_env"] if isinstance(space_d["cell_env"], list) else [space_d["cell_env"]] * ref.space.size()
            if envp.endswith(".npy"):
                np.save(envp, np.array(ce, dtype=int))
            else:
                with open(envp, "w") as f:
                    f.write(" ".join(str(v) for v in ce))
            space_d = dict(space_d, cell_env=env_ref)
        with open(sp_file, "w", encoding="utf-8") as f:
            json.dump(space_d, f)
        net_file, net_ref = place(c["net_path"], "network.json")
        with open(net_file, "w", encoding="utf-8") as f:
            json.dump(net_d, f)
        d["network"], d["space"] = net_ref, sp_ref
        if c["state_file"]:
            vals, u = B.state_values(spec)
            p, r = place(c["state_file"], "state.npy") if not c["state_file"].startswith("ABS") else (os.path.join(tmp, "abs_state.npy"),) * 2
            np.save(p, np.array(vals))
            d["state"] = {"value": r, "units": u if u is not None else spec["sys_units"]["sys"]["quantity"]}
        if c["chem_file"]:
            p, r = place(c["chem_file"], "chem.txt") if not c["chem_file"].startswith("ABS") else (os.path.join(tmp, "abs_chem.txt"),) * 2
            if p.endswith(".npy"):
                np.save(p, np.array(spec["chemostats"], dtype=int))
            else:
                with open(p, "w") as f:
                    f.write(", ".join(str(v) for v in spec["chemostats"]))
            d["chemostats"] = r
        sys_file = os.path.join(tmp, "system.json")
        with open(sys_file, "w", encoding="utf-8") as f:
            json.dump(d, f)
        if c["via_script"]:
            sc_file = os.path.join(tmp, "script.json")
            with open(sc_file, "w", encoding="utf-8") as f:
                json.dump({"system": "system.json", "t_sample": [0, 1], "units": "default"}, f)
            loaded = sut_call("load_rdscript(multi-file layout)", S.load_rdscript, sc_file).system
        else:
            loaded = sut_call("load_rdsystem(multi-file layout)", S.load_rdsystem, sys_file)
        same(canon.system(ref), canon.system(loaded), "multi-file layout vs single dictionary", "multifile")
    finally:
        shutil.rmtree(tmp, ignore_errors=True)


# ---- aliases and defaults ---------------------------------------------------------------------------------

from props.c20 import SYN, levels, script_dict  # noqa: E402  (alias tables and dictionary walker)


def strat_alias(ctx):
    return st.fixed_dictionaries({"sys": gen.system_spec(**dict(sys_strategy, max_cells=6)), "picks": st.lists(st.integers(0, 10 ** 6), min_size=6, max_size=6),
                                  "extra": st.fixed_dictionaries({"policy": st.sampled_from(["on_t_sample", "on_iteration"]),
                                                                  "tsample_dict": st.booleans(), "script_units": st.one_of(st.none(), gen.us_any)})})


def check_alias(ctx, c):
    spec = c["sys"]
    good = script_dict(spec, c["extra"])
    ref = sut_call("rdscript_from_dict(primary keys)", S.rdscript_from_dict, copy.deepcopy(good))
    alt = copy.deepcopy(good)
    renamed = []
    for pick in c["picks"]:
        lv = levels(alt)
        cands = []
        for kind, dd, depth in lv:
            for group in SYN[kind]:
                if len(group) >= 2:
                    present = [k for k in group if k in dd]
                    if len(present) == 1:
                        cands.append((kind, dd, group, present[0]))
        if not cands:
            break
        kind, dd, group, present = cands[pick % len(cands)]
        other = [k for k in group if k != present][(pick // 13) % (len(group) - 1)]
        dd[other] = dd.pop(present)
        renamed.append("%s.%s->%s" % (kind, present, other))
    ctx.note(c, len(renamed) >= 2, ["aliases:%d" % min(len(renamed), 6)] + ["alias:" + r.split(".")[0] for r in renamed])
    got = sut_call("rdscript_from_dict(aliases %s)" % renamed, S.rdscript_from_dict, alt)
    a, b = canon.script(ref), canon.script(got)
    a["rng_seed"] = b["rng_seed"] = None if "rng_seed" not in good and "seed" not in good else a["rng_seed"]
    same(a, b, "aliases %s" % renamed, "aliases")


DEFAULT_FAULTS = ["network.reactions", "species.D", "species.density", "species.chstt", "reaction.k+", "reaction.k-",
                  "reaction.label", "grid.w", "grid.h", "grid.d", "grid.cell_env", "grid.cell_volume",
                  "grid.boundary_conditions", "system.space", "system.state", "system.chemostats",
                  "units.space", "units.time", "units.quantity", "space.type"]


def strat_defaults(ctx):
    return st.fixed_dictionaries({"sys": gen.system_spec(**dict(sys_strategy, max_cells=6)), "which": st.sampled_from(DEFAULT_FAULTS),
                                  "pick": st.integers(0, 1000)})


def check_defaults(ctx, c):
    spec = copy.deepcopy(c["sys"])
    which = c["which"]
    level, key = which.split(".")
    pick = c["pick"]
    d = B.system_dict(spec)
    full = copy.deepcopy(d)
    net, sp = d["network"], d["space"]
    fnet, fsp = full["network"], full["space"]
    dflt = {"D": 0, "density": 0, "chstt": False, "k+": 0, "k-": 0, "label": None, "w": 1, "h": 1, "d": 1,
            "cell_env": 0, "cell_volume": 1, "boundary_conditions": {}}
    if level == "network":
        if net["reactions"]:
            net["reactions"] = []
            fnet["reactions"] = []
        del net["reactions"]
    elif level == "species":
        i = pick % len(net["species"])
        net["species"][i].pop(key, None)
        fnet["species"][i][key] = dflt[key]
    elif level == "reaction":
        if not net["reactions"]:
            ctx.skip("no reaction")
            return
        i = pick % len(net["reactions"])
        net["reactions"][i].pop(key, None)
        fnet["reactions"][i][key] = dflt[key]
    elif level == "grid":
        if sp["type"] != "grid":
            ctx.skip("not a grid")
            return
        # omit the key; the explicit twin carries the documented default; keep the model consistent
        for dd in (sp, fsp):
            if key in ("w", "h", "d"):
                dd[key] = 1
                n = dd["w"] * dd["h"] * dd["d"]
                dd["cell_env"] = 0
            if key == "cell_env":
                dd["cell_env"] = 0
        d.pop("state", None), full.pop("state", None), d.pop("chemostats", None), full.pop("chemostats", None)
        sp.pop(key, None)
        fsp[key] = dflt[key]
    elif level == "space":
        if sp["type"] != "grid":
            ctx.skip("not a grid")
            return
        sp.pop("type")
    elif level == "system":
        if key == "space":
            d.pop("space")
            full["space"] = {"type": "grid", "units": "inherit"}
            for dd in (d, full):
                dd.pop("state", None), dd.pop("chemostats", None)
                for s_ in dd["network"]["species"]:
                    pass
            # the default grid has a single cell in environment 0: nothing else to adapt
        else:
            d.pop(key, None)
            full.pop(key, None)
    elif level == "units":
        cands = [dd for kind, dd, depth in levels({"system": d, "t_sample": [0]}) if kind == "unitssystem"]
        fc = [dd for kind, dd, depth in levels({"system": full, "t_sample": [0]}) if kind == "unitssystem"]
        if not cands:
            d["units"] = {"space": "m", "time": "h", "quantity": "mol"}
            full["units"] = dict(d["units"])
            cands, fc = [d["units"]], [full["units"]]
        j = pick % len(cands)
        cands[j].pop(key)
        fc[j][key] = si.DEFAULT_SYS[key]
        # bare numbers were computed for the drawn unit: both dictionaries are re-read with the default
        # unit for that base, so they still describe the same object as each other
    ctx.note(c, True, ["default:" + which])
    want = sut_call("rdsystem_from_dict(explicit default for %s)" % which, S.rdsystem_from_dict, full)
    got = sut_call("rdsystem_from_dict(%s omitted)" % which, S.rdsystem_from_dict, d)
    same(canon.system(want), canon.system(got), "omitting %s" % which, "defaults")


RULE = RULE + " " + ("Since seeded round 5 constructed trajectories may carry a system of their own that differs from their script's (state and one flag edited), as after a coarse-grained run.")

FACETS = [
    Facet("parts", check_parts, strategy=strat_parts, examples=(900, 20000), shards=(8, 16)),
    Facet("script", check_script, strategy=strat_script, examples=(500, 12000), shards=(8, 16)),
    Facet("trajectory", check_traj, strategy=strat_traj, examples=(300, 8000), shards=(8, 16), setup=sim.setup_plain),
    Facet("multifile", check_multi, strategy=strat_multi, examples=(400, 8000), shards=(4, 16)),
    Facet("aliases", check_alias, strategy=strat_alias, examples=(500, 10000), shards=(4, 16)),
    Facet("defaults", check_defaults, strategy=strat_defaults, examples=(600, 10000), shards=(4, 16)),
]
