"""C03 Chemostated entries never change; everything else ignores the flag."""
import math
from fractions import Fraction as F

from hypothesis import strategies as st

from vlib import gen, si, sim
from vlib import build_model as B
from vlib.ratelaw import Model
from vlib.runner import Facet, Violation, sut_call
from vlib import sut  # noqa: F401
import strengths as S
from strengths import kinetics as K

PROPERTY = "C03"
RULE = ("Hypothesis system specs as in C01 plus chemostat flags given by species (scalar / "
        "per-environment dict with 'default') or by an explicit species x cell map. Facets: kinetics "
        "(compute_dstatedt with apply_chemostats True = masked reference law, False = unmasked law; "
        "make_dxdtf on one-cell systems), engines (Euler / tau-leap / Gillespie trajectories sampled on "
        "every iteration: flagged entries bit-identical to sample 0 in every sample, first Euler step = "
        "masked law), apply_reaction (only unflagged entries of that cell change by n x (p-q), "
        "update=False leaves the system untouched), source (a flagged entry that is the only reactant / "
        "diffusion source still feeds its unflagged product / neighbour in all three engines). "
        "Non-trivial: a flag on a species of index >= 1, a flagged entry whose unmasked reference "
        "derivative is non-zero, and an unflagged entry with non-zero derivative.")
ASSUMPTIONS = ["reference law vlib/ratelaw.py; engine rebuilt from the working tree",
               "stochastic engines are given integer-valued states (init_state_processing='none')"]
RTOL = 1e-9


def flags_classes(model, flags, dx_unmasked):
    n, ns = model.n, model.ns
    cl = []
    if any(flags[s * n + i] for s in range(1, ns) for i in range(n)):
        cl.append("flag-on-species>=1")
    if any(flags[t] and dx_unmasked[t] != 0 for t in range(n * ns)):
        cl.append("flagged-entry-would-move")
    for i in range(n):
        col = [flags[s * n + i] for s in range(ns)]
        if 0 < sum(col) < ns:
            cl.append("flags-differ-between-species-in-a-cell")
            break
    for s in range(ns):
        row = flags[s * n:(s + 1) * n]
        if 0 < sum(row) < n:
            cl.append("flags-differ-between-cells")
            break
    if not any(flags):
        cl.append("no-flag")
    return cl


def is_nontrivial(model, flags, dx_unmasked, dx_masked):
    n, ns = model.n, model.ns
    a = any(flags[s * n + i] for s in range(1, ns) for i in range(n))
    b = any(flags[t] and dx_unmasked[t] != 0 for t in range(n * ns))
    c = any((not flags[t]) and dx_masked[t] != 0 for t in range(n * ns))
    return a and b and c


def cmp_vec(got, want, scale, what, key):
    for t, (g, w, s) in enumerate(zip(got, want, scale)):
        if abs(g - w) > RTOL * s + 1e-300:
            raise Violation("%s[%d] = %r, reference %r (sum|terms| %r)" % (what, t, g, w, s), key=key)


# ---- kinetics ------------------------------------------------------------------------------------

def strat_kinetics(ctx):
    return st.fixed_dictionaries({
        "sys": gen.system_spec(variety="mild", max_species=3, max_reactions=2, max_order=3, max_cells=6,
                               max_axis=3, chemostats="mixed", min_species=2),
        "route": st.sampled_from(["ctor", "dict"]),
        "out": gen.us_mild,
    })


def check_kinetics(ctx, c):
    spec = c["sys"]
    model = Model(spec)
    flags = model.flags()
    x = model.state()
    dxu, sc = model.derivative(x)
    dxm, _ = model.derivative(x, mask=flags)
    ctx.note(c, is_nontrivial(model, flags, dxu, dxm), flags_classes(model, flags, dxu) + ["space:" + spec["space"]["type"]])
    system = sut_call("build_system", B.build_system, spec, c["route"])
    got_flags = [int(v) for v in system.chemostats]
    if got_flags != flags:
        raise Violation("system.chemostats = %s, expected %s" % (got_flags, flags), key="kinetics:map")
    U = B.US(c["out"])
    g1 = sut_call("compute_dstatedt(apply_chemostats=True)", K.compute_dstatedt, system, units_system=U)
    cmp_vec([float(v) for v in si.si_values(g1)], dxm, sc, "compute_dstatedt(apply_chemostats=True)", "kinetics:masked")
    g0 = sut_call("compute_dstatedt(apply_chemostats=False)", K.compute_dstatedt, system, apply_chemostats=False, units_system=U)
    cmp_vec([float(v) for v in si.si_values(g0)], dxu, sc, "compute_dstatedt(apply_chemostats=False)", "kinetics:unmasked")
    if model.n == 1:
        f = sut_call("make_dxdtf", system.make_dxdtf, U)
        qs = float(si.QUANTITY[c["out"]["quantity"]])
        ts = float(si.TIME[c["out"]["time"]])
        got = sut_call("dxdtf", f, 0.0, [v / qs for v in x])
        cmp_vec([float(g) * qs / ts for g in got], dxm, sc, "make_dxdtf()(0,x)", "kinetics:dxdtf")


# ---- engines -------------------------------------------------------------------------------------

def strat_engines(ctx):
    return st.fixed_dictionaries({
        "sys": gen.system_spec(variety="mild", max_species=3, max_reactions=2, max_order=2, max_cells=8,
                               max_axis=3, chemostats="map", min_species=2, state="explicit",
                               count_exp=(0, 2), simple_graph=False),
        "route": st.sampled_from(["ctor", "dict"]),
        "engine": st.sampled_from(["euler", "tauleap", "gillespie"]),
        "seed": st.integers(0, 2 ** 32 - 1),
        "steps": st.integers(5, 60),
        "out": gen.us_mild,
    })


def integerise(spec):
    """round the explicit state to whole molecules (stochastic engines)"""
    spec = dict(spec)
    stt = dict(spec["state"])
    stt["values"] = [gen.fs(round(F(v))) for v in stt["values"]]
    spec["state"] = stt
    return spec


def stable_dt(model, x, dx, sc):
    best = None
    for xv, s in zip(x, sc):
        if s > 0:
            r = max(abs(xv), 1.0) / s
            best = r if best is None else min(best, r)
    if best is None:
        best = 1.0
    e = math.floor(math.log10(best * 0.02))
    return F(10) ** e


def check_engines(ctx, c):
    spec = c["sys"]
    kind = c["engine"]
    if kind != "euler":
        spec = integerise(spec)
    model = Model(spec)
    flags = model.flags()
    x = model.state()
    dxu, sc = model.derivative(x)
    dxm, _ = model.derivative(x, mask=flags)
    ctx.note(c, is_nontrivial(model, flags, dxu, dxm),
             flags_classes(model, flags, dxu) + ["engine:" + kind, "space:" + spec["space"]["type"]])
    system = sut_call("build_system", B.build_system, spec, c["route"])
    from vlib.ratelaw import tame_dt
    dt = F(tame_dt(model, flags))
    U = c["out"]
    script = sut_call("RDScript", S.RDScript, system, [0], time_step=float(dt / si.TIME[U["time"]]),
                      t_max=float(dt * 10 ** 6 / si.TIME[U["time"]]), sampling_policy="on_iteration",
                      rng_seed=c["seed"], init_state_processing="none", units_system=B.US(U))
    traj, done, _ = sut_call("engine run", sim.drive, script, kind, c["steps"])
    n = model.n * model.ns
    raw = [float(v) for v in traj.data.value]
    ns_ = len(raw) // n
    if ns_ < 1 or len(raw) != ns_ * n:
        raise Violation("trajectory has %d values for state size %d" % (len(raw), n), key="engines:shape")
    for k in range(1, ns_):
        for t in range(n):
            if flags[t] and raw[k * n + t] != raw[t]:
                raise Violation("%s: chemostated entry %d (species %d, cell %d) changed from %r to %r at sample %d" % (
                    kind, t, t // model.n, t % model.n, raw[t], raw[k * n + t], k), key="engines:flagged-changed")
    ctx.count("samples_checked", ns_)
    if kind == "euler" and ns_ >= 2:
        d = [float(v) for v in si.si_values(traj.data)]
        dtf = float(dt)
        for t in range(n):
            got = (d[n + t] - d[t]) / dtf
            tol = RTOL * sc[t] + 4e-16 * (abs(d[t]) + abs(d[n + t])) / dtf + 1e-300
            if abs(got - dxm[t]) > tol:
                raise Violation("Euler step entry %d: %r, masked reference law %r (flag %d)" % (t, got, dxm[t], flags[t]),
                                key="engines:euler-masked-law")


# ---- apply_reaction --------------------------------------------------------------------------------

def strat_apply(ctx):
    return st.fixed_dictionaries({
        "sys": gen.system_spec(variety="any", max_species=4, max_reactions=3, max_order=3, max_cells=8,
                               max_axis=3, chemostats="map", min_species=2, min_reactions=1),
        "route": st.sampled_from(["ctor", "dict"]),
        "pick": st.integers(0, 10 ** 6),
        "n": st.sampled_from([1, 1, 2, 3, -1, -2, 0, 2.5, -0.5]),
        "by": st.sampled_from(["index", "label", "object"]),
        "pos_form": st.sampled_from(["index", "tuple", "float"]),
        "state_arg": st.sampled_from(["none", "unitarray", "list"]),
        "chem_arg": st.booleans(),
        "update": st.booleans(),
        # afterwards: one flag of the cell is toggled in place (set_chemostat) and a reaction is applied again
        "toggle": st.one_of(st.none(), st.fixed_dictionaries({"species": st.integers(0, 3), "via": st.sampled_from(["set_chemostat", "item"]),
                                                               "on_copy": st.booleans()})),
    })


def check_apply(ctx, c):
    spec = c["sys"]
    if not spec["reactions"]:
        ctx.skip("no reaction")
        return
    # reactions need labels when addressed by label/object
    spec = dict(spec)
    spec["reactions"] = [dict(r, label="rx%d" % i) for i, r in enumerate(spec["reactions"])]
    model = Model(spec)
    flags = model.flags()
    n, ns = model.n, model.ns
    ri = c["pick"] % len(spec["reactions"])
    cell = (c["pick"] // 11) % n
    r = spec["reactions"][ri]
    delta = [r["prod"].get(l, 0) - r["sub"].get(l, 0) for l in model.labels]
    touched = [s for s in range(ns) if delta[s] != 0]
    nt = any(flags[s * n + cell] for s in touched) and any(not flags[s * n + cell] for s in touched)
    ctx.note(c, nt and c["n"] != 0, ["apply:by-" + c["by"], "apply:n%s" % ("neg" if c["n"] < 0 else "pos" if c["n"] > 0 else "0"),
                                     "apply:state-" + c["state_arg"], "apply:update" if c["update"] else "apply:no-update"])
    system = sut_call("build_system", B.build_system, spec, c["route"])
    before = [float(v) for v in system.state.value]
    units_before = str(system.state.units)
    reaction = {"index": ri, "label": "rx%d" % ri, "object": system.network.reactions[ri]}[c["by"]]
    sp = spec["space"]
    if c["pos_form"] == "tuple" and sp["type"] == "grid":
        w, h = sp["w"], sp["h"]
        pos = (cell % w, (cell // w) % h, cell // (w * h))
    elif c["pos_form"] == "float":
        pos = float(cell)
    else:
        pos = cell
    kw = {"position": pos, "n": c["n"], "update": c["update"]}
    use_flags = flags
    base = before
    qsym = system.state.units.sys["quantity"]
    if c["state_arg"] == "unitarray":
        base = [v + 1.0 for v in before]
        kw["state"] = S.UnitArray(list(base), system.state.units)
    elif c["state_arg"] == "list":
        base = [v + 2.0 for v in before]
        kw["state"] = list(base)
    if c["chem_arg"]:
        use_flags = [1 - f for f in flags]
        kw["chemostats"] = list(use_flags)
    out = sut_call("apply_reaction", system.apply_reaction, reaction, **kw)
    if si.dimdict(out.units.dim) != gen.DIM_QTY:
        raise Violation("apply_reaction returned dimension %s" % out.units.dim, key="apply:dim")
    got = [float(v) for v in si.si_values(out)]
    qs = float(si.QUANTITY[qsym])
    for t in range(n * ns):
        s, i = t // n, t % n
        want = base[t] * qs
        if i == cell and not use_flags[t]:
            want += c["n"] * delta[s]
        tol = 1e-12 * (abs(base[t] * qs) + abs(c["n"] * delta[s])) + 1e-300
        if abs(got[t] - want) > tol:
            raise Violation("apply_reaction(%s, position=%r, n=%r): entry (species %d, cell %d, flag %d) = %r molecules, expected %r" % (
                B.equation(r["sub"], r["prod"]), pos, c["n"], s, i, use_flags[t], got[t], want), key="apply:value")
    after = [float(v) for v in system.state.value]
    if c["update"]:
        ga = [float(v) for v in si.si_values(system.state)]
        for t in range(n * ns):
            if abs(ga[t] - got[t]) > 1e-12 * abs(got[t]):
                raise Violation("update=True: system.state[%d] = %r, returned %r" % (t, ga[t], got[t]), key="apply:update")
    else:
        if after != before or str(system.state.units) != units_before:
            raise Violation("update=False changed the system state", key="apply:no-update")
    if [int(v) for v in system.chemostats] != flags:
        raise Violation("apply_reaction changed the chemostat map", key="apply:map")
    tg = c.get("toggle")
    if tg is None or c["chem_arg"]:
        return
    # the system's own map, edited in place after it has been consulted once
    obj = sut_call("system.copy", system.copy) if tg["on_copy"] else system
    s_t = touched[tg["species"] % len(touched)] if touched else tg["species"] % ns
    t_t = s_t * n + cell
    new_flag = 1 - flags[t_t]
    if tg["via"] == "set_chemostat":
        sut_call("set_chemostat", obj.set_chemostat, s_t, cell, new_flag)
    else:
        obj.chemostats[t_t] = new_flag
    flags2 = list(flags)
    flags2[t_t] = new_flag
    if [int(v) for v in obj.chemostats] != flags2:
        raise Violation("after setting the flag of (species %d, cell %d) to %d the map reads %s" % (s_t, cell, new_flag, [int(v) for v in obj.chemostats]),
                        key="apply:toggle-map")
    ctx.count("apply:second-call-after-flag-edit")
    base2 = [float(v) for v in si.si_values(obj.state)]
    out2 = sut_call("apply_reaction (second call)", obj.apply_reaction, reaction if not tg["on_copy"] or c["by"] != "object" else ri,
                    position=pos, n=c["n"], update=False)
    got2 = [float(v) for v in si.si_values(out2)]
    for t in range(n * ns):
        s, i = t // n, t % n
        want = base2[t]
        if i == cell and not flags2[t]:
            want += c["n"] * delta[s]
        tol = 1e-12 * (abs(base2[t]) + abs(c["n"] * delta[s])) + 1e-300
        if abs(got2[t] - want) > tol:
            raise Violation("apply_reaction(%s, position=%r, n=%r) after the flag of (species %d, cell %d) was set to %d in place: entry (species %d, "
                            "cell %d, flag %d) = %r molecules, expected %r" % (B.equation(r["sub"], r["prod"]), pos, c["n"], s_t, cell, new_flag,
                                                                              s, i, flags2[t], got2[t], want), key="apply:after-flag-edit")


# ---- a flagged entry still acts as a source --------------------------------------------------------

def strat_source(ctx):
    return st.fixed_dictionaries({
        "mode": st.sampled_from(["reactant", "diffusion"]),
        "space": st.sampled_from(["grid", "graph"]),
        "engine": st.sampled_from(["euler", "tauleap", "gillespie"]),
        "species_index": st.integers(0, 2),
        "count": st.integers(50, 500),
        "seed": st.integers(0, 2 ** 32 - 1),
        "cells": st.integers(2, 4),
        "src_cell": st.integers(0, 3),
        # diffusion mode: every species of the source cell is flagged (the cell as a whole is a reservoir)
        "whole_cell": st.booleans(),
    })


def check_source(ctx, c):
    labels = ["A", "B", "C", "P"]
    si_ = c["species_index"]
    src = labels[si_]
    ncell = c["cells"]
    src_cell = c["src_cell"] % ncell
    species = [S.Species(l, D=(1.0 if (c["mode"] == "diffusion" and l == src) else 0.0)) for l in labels]
    reactions = [S.Reaction("%s -> P" % src, kf=1.0)] if c["mode"] == "reactant" else []
    net = S.RDNetwork(species, reactions)
    if c["space"] == "grid":
        space = S.RDGridSpace(w=ncell)
    else:
        space = S.RDGraphSpace(nodes=[S.RDGraphSpaceNode() for _ in range(ncell)],
                               edges=[S.RDGraphSpaceEdge(i, i + 1) for i in range(ncell - 1)])
    system = S.RDSystem(net, space)
    system.set_state(src, src_cell, c["count"])
    system.set_chemostat(src, src_cell, 1)
    whole = bool(c.get("whole_cell")) and c["mode"] == "diffusion"
    if whole:
        for l in labels:
            system.set_chemostat(l, src_cell, 1)
    ctx.note(c, si_ >= 1, ["source:" + c["mode"], "source:" + c["engine"], "source:" + c["space"]] + (["source:whole-cell-flagged"] if whole else []))
    script = S.RDScript(system, [0], time_step=1e-3, t_max=1e6, sampling_policy="on_iteration",
                        rng_seed=c["seed"], init_state_processing="none")
    traj, _, _ = sut_call("engine run", sim.drive, script, c["engine"], 400)
    n = ncell * 4
    raw = [float(v) for v in traj.data.value]
    ns_ = len(raw) // n
    src_t = si_ * ncell + src_cell
    last = raw[(ns_ - 1) * n:]
    if any(raw[k * n + src_t] != c["count"] for k in range(ns_)):
        raise Violation("%s: chemostated source entry changed" % c["engine"], key="source:changed")
    moved = sum(abs(last[t] - raw[t]) for t in range(n) if t != src_t)
    # expected transfer after 400 steps: euler/tauleap 0.4 s x count (x neighbours); gillespie 400 events
    if moved <= 0:
        raise Violation("%s/%s/%s: a chemostated %s (count %d, species index %d) is the only source but nothing else ever changed in %d samples" % (
            c["engine"], c["space"], c["mode"], src, c["count"], si_, ns_), key="source:no-effect")


RULE = RULE + " " + ('Since seeded round 4 the apply_reaction facet continues the history: one flag of the cell is edited in place (set_chemostat or item assignment on the map, on the system or on a copy of it) after the first call and the reaction is applied again, against the edited map; the source facet also flags every species of the source cell (a whole-cell reservoir) in diffusion mode.')

FACETS = [
    Facet("kinetics", check_kinetics, strategy=strat_kinetics, examples=(960, 8000), shards=(16, 16)),
    Facet("engines", check_engines, strategy=strat_engines, examples=(1200, 30000), shards=(8, 16), setup=sim.setup_plain),
    Facet("apply_reaction", check_apply, strategy=strat_apply, examples=(1600, 30000), shards=(8, 16)),
    Facet("source", check_source, strategy=strat_source, examples=(300, 6000), shards=(4, 16), setup=sim.setup_plain),
]
