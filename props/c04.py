"""C04 Physical results do not depend on the units used to state or report them."""
import copy
import math
from fractions import Fraction as F

from hypothesis import strategies as st

from vlib import gen, si, sim
from vlib import build_model as B
from vlib.ratelaw import Model
from vlib.runner import Facet, Violation, sut_call
from vlib import sut  # noqa: F401
import strengths as S
from strengths import kinetics as K

PROPERTY = "C04"
RULE = ("One physical system spec in SI is rendered twice (A, B): every nesting level (system, network, "
        "species, reaction, space, graph node, graph edge) independently draws explicit / 'inherit' / "
        "'default' / omitted units out of all 1100 systems, and every dimensioned field independently "
        "draws bare-number-in-owner-units or explicit unit string / UnitValue; A and B are built through "
        "constructors or dictionary readers. Facet system: state, chemostat map and compute_dstatedt of A "
        "and B agree in SI with each other and with the reference law. Facet euler: N Euler steps of A and "
        "B (output units, time_step, t_max as bare numbers or explicit strings in other time units) agree "
        "in SI on t (1e-12) and data (1e-9 x accumulated scale) and the first step equals the reference "
        "law. Facet output_units: one script, two output unit systems: only the scale differs. "
        "Non-trivial: A and B differ on a base unit at a level owning a bare number whose exponent for that "
        "base is non-zero, and the reference derivative is non-zero.")
ASSUMPTIONS = ["reference law vlib/ratelaw.py; SI table vlib/si.py",
               "step count fixed by placing t_max at (N + 1/2) time steps"]
RTOL = 1e-9


# ---- re-rendering --------------------------------------------------------------------------------

class Pool:
    def __init__(self, syss, ints):
        self.syss, self.ints, self.i, self.j = syss, ints, 0, 0

    def sys(self):
        s = self.syss[self.i % len(self.syss)]
        self.i += 1
        return dict(s)

    def int(self):
        v = self.ints[self.j % len(self.ints)]
        self.j += 1
        return v


def new_level(parent, pool):
    r = pool.int() % 10
    if r <= 4:
        return {"mode": "explicit", "sys": pool.sys()}
    if r <= 6:
        return {"mode": "inherit", "sys": dict(parent)}
    if r <= 7:
        return {"mode": "default", "sys": dict(gen.DEFAULT)}
    return {"mode": "omit", "sys": dict(parent)}


def new_qv(q, pool):
    form = ["bare", "bare", "str", "uv"][pool.int() % 4]
    return {"si": q["si"], "form": form, "sys": pool.sys(), "style": pool.int() % 2}


def new_val(v, pool):
    if B.is_qv(v):
        return new_qv(v, pool)
    return {k: new_qv(q, pool) for k, q in v.items()}


def rerender(spec, pool):
    s = copy.deepcopy(spec)
    s["sys_units"] = new_level(gen.DEFAULT, pool)
    s["net_units"] = new_level(s["sys_units"]["sys"], pool)
    for sp in s["species"]:
        sp["units"] = new_level(s["net_units"]["sys"], pool)
        sp["D"] = new_val(sp["D"], pool)
        sp["density"] = new_val(sp["density"], pool)
    for r in s["reactions"]:
        r["units"] = new_level(s["net_units"]["sys"], pool)
        r["kf"] = new_val(r["kf"], pool)
        r["kr"] = new_val(r["kr"], pool)
    space = s["space"]
    space["units"] = new_level(s["sys_units"]["sys"], pool)
    if space["type"] == "grid":
        space["cell_vol"] = new_qv(space["cell_vol"], pool)
    else:
        for nd in space["nodes"]:
            nd["units"] = new_level(space["units"]["sys"], pool)
            nd["vol"] = new_qv(nd["vol"], pool)
        for e in space["edges"]:
            e["units"] = new_level(space["units"]["sys"], pool)
            e["sfc"] = new_qv(e["sfc"], pool)
            e["dst"] = new_qv(e["dst"], pool)
    if s["state"] is not None:
        s["state"]["units"] = (["bare"] + si.QUANTITY_SYMS)[pool.int() % 11]
    return s


def bare_fields(spec):
    """-> list of (name, owner sys, dim) for every bare number of the rendering"""
    out = []

    def add(name, v, sys_, dim):
        qs = [v] if B.is_qv(v) else list(v.values())
        for q in qs:
            if q["form"] == "bare":
                out.append((name, sys_, dim))
    for sp in spec["species"]:
        add("species.D", sp["D"], sp["units"]["sys"], gen.DIM_D)
        add("species.density", sp["density"], sp["units"]["sys"], gen.DIM_DENS)
    for r in spec["reactions"]:
        add("reaction.kf", r["kf"], r["units"]["sys"], gen.dim_k(sum(r["sub"].values())))
        add("reaction.kr", r["kr"], r["units"]["sys"], gen.dim_k(sum(r["prod"].values())))
    space = spec["space"]
    if space["type"] == "grid":
        add("grid.cell_vol", space["cell_vol"], space["units"]["sys"], gen.DIM_VOL)
    else:
        for nd in space["nodes"]:
            add("node.volume", nd["vol"], nd["units"]["sys"], gen.DIM_VOL)
        for e in space["edges"]:
            add("edge.surface", e["sfc"], e["units"]["sys"], gen.DIM_SFC)
            add("edge.distance", e["dst"], e["units"]["sys"], gen.DIM_LEN)
    if spec["state"] is not None and spec["state"]["units"] == "bare":
        out.append(("system.state", spec["sys_units"]["sys"], gen.DIM_QTY))
    return out


def diff_classes(a, b):
    """classes 'bare:<field>:<kind>' for bare numbers whose owner unit differs between A and B on a
    base with non-zero exponent (same field order in A and B by construction)"""
    ca = {}
    for name, sys_, dim in bare_fields(a):
        ca.setdefault(name, []).append((sys_, dim))
    cb = {}
    for name, sys_, dim in bare_fields(b):
        cb.setdefault(name, []).append((sys_, dim))
    cl = set()
    for name in ca:
        for (sa, dim) in ca[name]:
            for (sb, _) in cb.get(name, []) or [(None, None)]:
                for k in si.KINDS:
                    if dim[k] != 0 and (sb is None or sa[k] != sb[k]):
                        cl.add("bare:%s:%s" % (name, k))
    for name in cb:
        if name not in ca:
            for (sb, dim) in cb[name]:
                for k in si.KINDS:
                    if dim[k] != 0:
                        cl.add("bare:%s:%s" % (name, k))
    return sorted(cl)


pool_st = st.fixed_dictionaries({"syss": st.lists(gen.us_any, min_size=12, max_size=12),
                                 "ints": st.lists(st.integers(0, 999), min_size=40, max_size=40)})


def stable_dt(x, sc):
    best = None
    for xv, s in zip(x, sc):
        if s > 0:
            r = max(abs(xv), 1.0) / s
            best = r if best is None else min(best, r)
    if best is None:
        best = 1.0
    return F(10) ** math.floor(math.log10(best * 0.02))


def cmp_state(a, b, ref, what):
    ga, gb = si.si_values(a.state), si.si_values(b.state)
    for t, (x, y, w) in enumerate(zip(ga, gb, ref)):
        for nm, g in (("A", x), ("B", y)):
            if abs(float(g) - w) > 1e-12 * abs(w):
                raise Violation("%s: rendering %s state[%d] = %r molecules, physical value %r" % (what, nm, t, float(g), w),
                                key="system:state")


# ---- facet: system -------------------------------------------------------------------------------

def strat_system(ctx):
    return st.fixed_dictionaries({
        "sys": gen.system_spec(variety="any", max_species=3, max_reactions=2, max_order=3, max_cells=6,
                               max_axis=3, chemostats="species"),
        "pool": pool_st, "route_a": st.sampled_from(["ctor", "dict"]), "route_b": st.sampled_from(["ctor", "dict", "file", "file-in-script"]),
        "out_a": gen.us_any, "out_b": gen.us_any,
    })


def strat_onecell(ctx):
    return st.fixed_dictionaries({
        "sys": gen.system_spec(variety="any", max_species=3, max_reactions=3, max_order=3, max_cells=1, chemostats="species"),
        "pool": pool_st, "route_a": st.sampled_from(["ctor", "dict"]), "route_b": st.sampled_from(["ctor", "dict", "file", "file-in-script"]),
        "out_a": gen.us_any, "out_b": gen.us_any,
    })


def check_system(ctx, c):
    A = c["sys"]
    Bs = rerender(A, Pool(c["pool"]["syss"], c["pool"]["ints"]))
    model = Model(A)
    x = model.state()
    flags = model.flags()
    dx, sc = model.derivative(x, mask=flags)
    dcl = diff_classes(A, Bs)
    ctx.note(c, bool(dcl) and any(v != 0 for v in dx), dcl + ["routes:%s/%s" % (c["route_a"], c["route_b"]),
                                                              "space:" + A["space"]["type"]])
    sa = sut_call("build A", B.build_system, A, c["route_a"])
    sb = sut_call("build B", B.build_system, Bs, c["route_b"])
    cmp_state(sa, sb, x, "initial state")
    if [int(v) for v in sa.chemostats] != flags or [int(v) for v in sb.chemostats] != flags:
        raise Violation("chemostat maps differ: %s / %s / expected %s" % (list(sa.chemostats), list(sb.chemostats), flags),
                        key="system:flags")
    da = sut_call("compute_dstatedt A", K.compute_dstatedt, sa, units_system=B.US(c["out_a"]))
    db = sut_call("compute_dstatedt B", K.compute_dstatedt, sb, units_system=B.US(c["out_b"]))
    va = [float(v) for v in si.si_values(da)]
    vb = [float(v) for v in si.si_values(db)]
    for t in range(len(dx)):
        tol = RTOL * sc[t] + 1e-300
        if abs(va[t] - vb[t]) > 2 * tol:
            raise Violation("rate of change differs between renderings on entry %d: %r vs %r" % (t, va[t], vb[t]),
                            key="system:dstatedt-AB")
        if abs(va[t] - dx[t]) > tol or abs(vb[t] - dx[t]) > tol:
            raise Violation("rate of change entry %d: A %r, B %r, reference %r" % (t, va[t], vb[t], dx[t]),
                            key="system:dstatedt-ref")
    if model.n == 1:
        # the right-hand side exported for external integrators (one-cell systems), asked in two unit systems
        for nm, sysobj, U in (("A", sa, c["out_a"]), ("B", sb, c["out_b"])):
            f = sut_call("make_dxdtf %s" % nm, sysobj.make_dxdtf, B.US(U))
            qs, ts = float(si.QUANTITY[U["quantity"]]), float(si.TIME[U["time"]])
            got = sut_call("dxdtf(t, x) %s" % nm, f, 0.0, [v / qs for v in x])
            for t in range(len(dx)):
                g = float(got[t]) * qs / ts
                if abs(g - dx[t]) > RTOL * sc[t] + 1e-300:
                    raise Violation("make_dxdtf asked in (%s, %s, %s) on rendering %s: entry %d = %r molecule/s, reference %r" % (
                        U["space"], U["time"], U["quantity"], nm, t, g, dx[t]), key="system:dxdtf-units")


# ---- facet: euler ----------------------------------------------------------------------------------

def time_arg(x_si, form_sys, owner_sys):
    """(value for strengths) of an SI time in seconds; form_sys None -> bare in owner units"""
    if form_sys is None:
        return float(F(x_si) / si.TIME[owner_sys["time"]])
    return "%r %s" % (float(F(x_si) / si.TIME[form_sys]), form_sys)


def strat_euler(ctx):
    tform = st.one_of(st.none(), st.sampled_from(si.TIME_SYMS))
    return st.fixed_dictionaries({
        "sys": gen.system_spec(variety="any", max_species=3, max_reactions=2, max_order=2, max_cells=12,
                               max_axis=3, chemostats="species", simple_graph=False, count_exp=(0, 2)),
        "pool": pool_st, "route_a": st.sampled_from(["ctor", "dict"]), "route_b": st.sampled_from(["ctor", "dict", "file", "file-in-script"]),
        "out_a": gen.us_any, "out_b": gen.us_any, "steps": st.integers(1, 12),
        "dt_a": tform, "dt_b": tform, "tmax_a": tform, "tmax_b": tform, "cgmap_b": st.booleans(),
    })


def run_euler(system, U, dt, nsteps, dt_form, tmax_form, cgmap=None):
    tmax = dt * (F(nsteps) + F(1, 2))
    return S.simulate(system, [0], engine=sim.engine("euler"), sampling_policy="on_iteration",
                      time_step=time_arg(dt, dt_form, U), t_max=time_arg(tmax, tmax_form, U),
                      units_system=B.US(U), cgmap=cgmap)


def check_euler(ctx, c):
    A = c["sys"]
    Bs = rerender(A, Pool(c["pool"]["syss"], c["pool"]["ints"]))
    model = Model(A)
    x = model.state()
    flags = model.flags()
    dx, sc = model.derivative(x, mask=flags)
    dcl = diff_classes(A, Bs)
    nt = bool(dcl) and any(v != 0 for v in dx)
    ctx.note(c, nt, dcl + ["steps:%d" % min(c["steps"], 5), "space:" + A["space"]["type"],
                           "dt:" + ("bare" if c["dt_a"] is None else "str") + "/" + ("bare" if c["dt_b"] is None else "str")])
    sa = sut_call("build A", B.build_system, A, c["route_a"])
    sb = sut_call("build B", B.build_system, Bs, c["route_b"])
    from vlib.ratelaw import tame_dt
    dt = F(tame_dt(model, flags))
    N = c["steps"]
    ta = sut_call("simulate A", run_euler, sa, c["out_a"], dt, N, c["dt_a"], c["tmax_a"])
    # rendering B may additionally go through the coarse-graining path with the identity map (reflecting grids):
    # the physics -- and therefore the result in SI -- must be the same
    spb = Bs["space"]
    cg = None
    if c.get("cgmap_b") and spb["type"] == "grid" and not any(v == "periodical" for v in spb["bc"].values()):
        cg = list(range(model.n))
    tb = sut_call("simulate B" + (" (cgmap=identity)" if cg else ""), run_euler, sb, c["out_b"], dt, N, c["dt_b"], c["tmax_b"], cg)
    n = model.n * model.ns
    for nm, tr, U in (("A", ta, c["out_a"]), ("B", tb, c["out_b"])):
        if tr.t.units.sys["time"] != U["time"] or tr.data.units.sys["quantity"] != U["quantity"]:
            raise Violation("trajectory %s not expressed in the requested output units" % nm, key="euler:out-units")
        if len(tr.t) != N + 2:
            raise Violation("rendering %s: %d samples for %d steps of %r s (t_max at N+1/2 steps), expected %d" % (
                nm, len(tr.t), N, float(dt), N + 2), key="euler:nsamples")
    tsa = [float(v) for v in si.si_values(ta.t)]
    tsb = [float(v) for v in si.si_values(tb.t)]
    dtf = float(dt)
    for k in range(N + 2):
        if abs(tsa[k] - k * dtf) > 1e-12 * (k * dtf) + 1e-300 or abs(tsb[k] - k * dtf) > 1e-12 * (k * dtf) + 1e-300:
            raise Violation("sample time %d: A %r s, B %r s, expected %r s" % (k, tsa[k], tsb[k], k * dtf), key="euler:t")
    da = [float(v) for v in si.si_values(ta.data)]
    db = [float(v) for v in si.si_values(tb.data)]
    # first step vs reference law, all steps A vs B
    for t in range(n):
        got = (da[n + t] - da[t]) / dtf
        tol = RTOL * sc[t] + 4e-16 * (abs(da[t]) + abs(da[n + t])) / dtf + 1e-300
        if abs(got - dx[t]) > tol:
            raise Violation("rendering A first step entry %d: %r, reference %r" % (t, got, dx[t]), key="euler:ref")
    growth = [abs(v) for v in x]
    for k in range(N + 2):
        for t in range(n):
            a_, b_ = da[k * n + t], db[k * n + t]
            bound = max(abs(a_), abs(b_), growth[t]) + dtf * sc[t] * (k + 1)
            if abs(a_ - b_) > 1e-9 * bound * (k + 1):
                raise Violation("sample %d entry %d differs between renderings: %r vs %r molecules" % (k, t, a_, b_),
                                key="euler:AB")


# ---- facet: output units ---------------------------------------------------------------------------

def strat_out(ctx):
    return st.fixed_dictionaries({
        "sys": gen.system_spec(variety="mild", max_species=3, max_reactions=2, max_order=2, max_cells=8,
                               max_axis=3, count_exp=(0, 2)),
        "engine": st.sampled_from(["euler", "euler", "gillespie", "tauleap"]),
        "out_a": gen.us_any, "out_b": gen.us_any, "steps": st.integers(2, 20), "seed": st.integers(0, 2 ** 32 - 1),
        "policy": st.sampled_from(["on_iteration", "on_interval", "on_t_sample"]),
    })


def strat_out_extreme(ctx):
    # the same comparison between the default units and the extreme ends of the unit tables (slow kinetics seen through
    # femtoseconds, large amounts seen through kmol, ...), mostly on the stochastic engines
    ext = st.fixed_dictionaries({"space": st.sampled_from(["km", "fm", "µm", "m"]), "time": st.sampled_from(["fs", "ps", "h", "fs"]),
                                 "quantity": st.sampled_from(["kmol", "molecule", "fmol", "mol"])})
    return st.fixed_dictionaries({
        "sys": gen.system_spec(variety="mild", max_species=2, max_reactions=2, max_order=2, max_cells=4,
                               max_axis=2, count_exp=(0, 2), rate_exp=(-4, -1), min_reactions=1),
        "engine": st.sampled_from(["gillespie", "gillespie", "tauleap", "euler"]),
        "out_a": st.just(dict(si.DEFAULT_SYS)), "out_b": ext, "steps": st.integers(2, 12), "seed": st.integers(0, 2 ** 32 - 1),
        "policy": st.sampled_from(["on_iteration", "on_interval", "on_t_sample"]),
    })


def check_out(ctx, c):
    spec = c["sys"]
    model = Model(spec)
    x = model.state()
    dx, sc = model.derivative(x)
    diff = [k for k in ("time", "quantity") if c["out_a"][k] != c["out_b"][k]]
    ctx.note(c, len(diff) >= 1 and any(v != 0 for v in dx), ["out:" + c["engine"], "out:" + c["policy"]] + ["outdiff:" + k for k in diff])
    system = sut_call("build", B.build_system, spec, "ctor")
    from vlib.ratelaw import tame_dt
    dt = F(tame_dt(model))
    N = c["steps"]
    tmax = dt * (F(N) + F(1, 2))
    res = []
    for U in (c["out_a"], c["out_b"]):
        # requested times sit mid-step (and the interval is 3.3 steps) so that unit rounding of the
        # time quantities can never move a sampling decision across a step boundary
        ts = [0.0] + [time_arg(dt * (F(k) + F(1, 2)), None, U) for k in range(1, N + 1, 2)]
        kw = dict(engine=sim.engine(c["engine"]), sampling_policy=c["policy"],
                  time_step=time_arg(dt, None, U), t_max=time_arg(tmax, None, U),
                  sampling_interval=time_arg(dt * F(33, 10), None, U), rng_seed=c["seed"], units_system=B.US(U))
        res.append(sut_call("simulate", S.simulate, system, ts, **kw))
    ta, tb = res
    for tr, U in ((ta, c["out_a"]), (tb, c["out_b"])):
        # documented (RDScript.units_system): the trajectory is expressed in the script's unit system
        if tr.t.units.sys["time"] != U["time"] or tr.data.units.sys["quantity"] != U["quantity"]:
            raise Violation("%s trajectory expressed in %s / %s, requested output units %s / %s" % (
                c["engine"], tr.t.units.sys["time"], tr.data.units.sys["quantity"], U["time"], U["quantity"]),
                key="out:units")
    if c["engine"] == "gillespie":
        # event times are not on a grid: unit rounding of t_sample/t_max may move a boundary; compare
        # only when the number of samples agrees (counted otherwise)
        if len(ta.t) != len(tb.t):
            lo, hi = sorted((len(ta.t), len(tb.t)))
            if lo <= 1 and hi >= 2:
                # not a boundary effect: one of the two runs of the same physical system stopped at once
                raise Violation("gillespie (%s space): the run reported in (%s, %s) records %d samples, the same run reported in (%s, %s) records %d: "
                                "the units asked for the output decide whether anything happens at all" % (
                                    spec["space"]["type"], c["out_a"]["time"], c["out_a"]["quantity"], len(ta.t),
                                    c["out_b"]["time"], c["out_b"]["quantity"], len(tb.t)), key="out:gillespie-stops")
            ctx.skip("gillespie: sample count differs under unit rounding of requested times")
            return
    if len(ta.t) != len(tb.t) or len(ta.data) != len(tb.data):
        raise Violation("output units changed the number of samples: %d vs %d" % (len(ta.t), len(tb.t)), key="out:nsamples")
    fa, fb = si.si_floats(ta.t) + si.si_floats(ta.data), si.si_floats(tb.t) + si.si_floats(tb.data)
    if any(v != v or v in (float("inf"), float("-inf")) for v in fa + fb):
        ctx.skip("non-finite values in the trajectory (numerically unstable run)")
        return
    for k, (p, q) in enumerate(zip(si.si_values(ta.t), si.si_values(tb.t))):
        if abs(p - q) > F(1, 10 ** 12) * abs(p):
            raise Violation("sample time %d differs: %r vs %r s" % (k, float(p), float(q)), key="out:t")
    for k, (p, q) in enumerate(zip(si.si_values(ta.data), si.si_values(tb.data))):
        if abs(p - q) > F(1, 10 ** 9) * max(abs(p), abs(q)) + F(1, 10 ** 9):
            if c["engine"] != "euler":
                # stochastic runs: identical seed must give identical molecule numbers
                raise Violation("stochastic data entry %d differs with output units: %r vs %r" % (k, float(p), float(q)), key="out:data-sto")
            raise Violation("data entry %d differs with output units: %r vs %r molecules" % (k, float(p), float(q)), key="out:data")


RULE = RULE + " " + ('Since seeded round 4 facet one_cell_rhs (one-cell systems with reactions of order 0..3): make_dxdtf asked in two drawn unit systems on the two renderings, both against the reference law.')

RULE = RULE + " " + ('Since seeded round 5 rendering B is also built from a system FILE (load_rdsystem(path, parent_units_system) and a script dictionary that names the file), with an explicit units declaration of the system moved to the parent; facet output_units_extreme compares the default units with the ends of the unit tables (fs, ps, h x km, fm x kmol, fmol) on slow kinetics, mostly with the stochastic engines; a Gillespie run that records only t = 0 in one unit system and more in the other is a violation (sample counts that differ otherwise are still skipped and counted).')

FACETS = [
    Facet("system", check_system, strategy=strat_system, examples=(480, 8000), shards=(16, 16)),
    Facet("one_cell_rhs", check_system, strategy=strat_onecell, examples=(320, 6000), shards=(8, 16)),
    Facet("euler", check_euler, strategy=strat_euler, examples=(800, 20000), shards=(8, 16), setup=sim.setup_plain),
    Facet("output_units_extreme", check_out, strategy=strat_out_extreme, examples=(400, 8000), shards=(4, 16), setup=sim.setup_plain),
    Facet("output_units", check_out, strategy=strat_out, examples=(600, 12000), shards=(6, 16), setup=sim.setup_plain),
]
