"""C05 Arithmetic on quantities is arithmetic on their SI values, or an error."""
import math
from fractions import Fraction as F

from hypothesis import strategies as st

from vlib import si
from vlib.runner import Facet, Violation
from vlib import sut  # noqa: F401
import strengths as S

PROPERTY = "C05"
RULE = ("Hypothesis expression trees of depth <= 3 over UnitValue / UnitArray(len 1-4) / int / float "
        "leaves (each leaf its own unit system out of 1100, dimension vector in [-2,2]^3, magnitude "
        "m x 10^e, e in -6..6), operators + - * / %, ** (scalar base, integer -3..3 and 1/2, 1/3), unary "
        "-, abs, and a final comparison facet; oracle = exact Fraction interpreter over SI values and "
        "dimension vectors with forward error bounds: must-raise / value+dimension+shape / skip (near a "
        "discontinuity, overflow range, or a plain number meeting an intermediate whose storage system "
        "the property leaves open). Non-trivial: some binary node combines two quantities stored in "
        "unit systems that differ on a base with non-zero exponent. distinct = digest of the tree.")
ASSUMPTIONS = [
    "plain numbers adopt the unit system the other operand is stored in (only asserted when that "
    "operand is a leaf or built from leaves of one system)",
    "magnitudes kept within 1e-250..1e250 in every unit system; |dimension| <= 4 per base",
    "UnitArray ** n and ordering comparisons on arrays are documented non-features: not generated",
]
EPS = F(1, 10 ** 12)
KINDS = si.KINDS


class Skip(Exception):
    pass


class Err(Exception):
    """Oracle: the expression is dimensionally meaningless and must raise."""


# ------------------------------------------------------------------------------------------------
# generator

sys_st = st.fixed_dictionaries({"space": st.sampled_from(si.SPACE_SYMS),
                                "time": st.sampled_from(si.TIME_SYMS),
                                "quantity": st.sampled_from(si.QUANTITY_SYMS)})
dim_st = st.fixed_dictionaries({k: st.integers(-2, 2) for k in KINDS})


@st.composite
def mag_st(draw):
    m = draw(st.integers(1, 9999))
    dec = draw(st.integers(0, 3))
    e = draw(st.integers(-6, 6))
    sgn = draw(st.sampled_from([1, 1, -1]))
    return float(sgn * F(m, 10 ** dec) * F(10) ** e)


@st.composite
def tree_st(draw, depth, pool):
    def leaf():
        k = draw(st.sampled_from(["uv", "uv", "uv", "ua", "ua", "num"]))
        if k == "num":
            if draw(st.booleans()):
                return {"k": "num", "v": draw(st.integers(-9, 9).filter(lambda x: x != 0))}
            return {"k": "num", "v": draw(mag_st())}
        sysd = draw(st.sampled_from(pool["sys"])) if draw(st.integers(0, 3)) else draw(sys_st)
        dimd = draw(st.sampled_from(pool["dim"]))
        if k == "uv":
            return {"k": "uv", "v": draw(mag_st()), "sys": sysd, "dim": dimd}
        n = pool["len"] if draw(st.integers(0, 7)) else draw(st.integers(1, 4))
        return {"k": "ua", "v": [draw(mag_st()) for _ in range(n)], "sys": sysd, "dim": dimd}

    def node(d):
        if d == 0 or draw(st.integers(0, 4)) == 0:
            return leaf()
        kind = draw(st.sampled_from(["bin"] * 6 + ["neg", "abs", "pow"]))
        if kind == "bin":
            return {"k": "bin", "op": draw(st.sampled_from(["+", "-", "*", "/", "%", "+", "-", "*", "/"])),
                    "a": node(d - 1), "b": node(d - 1)}
        a = node(d - 1)
        if kind == "pow" and typ(a) == "S":
            e = draw(st.sampled_from([[-3, 1], [-2, 1], [-1, 1], [0, 1], [1, 1], [2, 1], [3, 1], [1, 2], [1, 3]]))
            return {"k": "pow", "a": a, "e": e}
        return {"k": "neg" if kind != "abs" else "abs", "a": a}

    return node(depth)


def typ(n):
    k = n["k"]
    if k == "uv":
        return "S"
    if k == "ua":
        return "A"
    if k == "num":
        return "N"
    if k in ("neg", "abs", "pow"):
        return typ(n["a"])
    ta, tb = typ(n["a"]), typ(n["b"])
    if "A" in (ta, tb):
        return "A"
    if "S" in (ta, tb):
        return "S"
    return "N"


@st.composite
def pool_st(draw):
    return {"sys": [draw(sys_st), draw(sys_st)],
            "dim": draw(st.sampled_from([1, 1, 2, 3])) * [draw(dim_st)] + [draw(dim_st)] * draw(st.integers(0, 1)),
            "len": draw(st.integers(1, 4))}


@st.composite
def expr_case(draw):
    pool = draw(pool_st())
    t = draw(tree_st(3, pool))
    if typ(t) == "N":
        t = {"k": "bin", "op": "*", "a": t, "b": draw(tree_st(0, pool).filter(lambda x: x["k"] != "num"))}
    return {"expr": t}


@st.composite
def cmp_case(draw):
    pool = draw(pool_st())
    scalar = lambda x: typ(x) != "A"  # noqa: E731
    a = draw(tree_st(2, pool).filter(scalar))
    mode = draw(st.integers(0, 5))
    if mode == 0 and a["k"] == "uv":
        b = dict(a)  # identical leaf: the exact-equality corner
    else:
        b = draw(tree_st(2, pool).filter(scalar))
    if typ(a) == "N" and typ(b) == "N":
        b = draw(tree_st(0, pool).filter(lambda x: x["k"] == "uv"))
    return {"cmp": draw(st.sampled_from(["<", "<=", ">", ">=", "==", "!="])), "a": a, "b": b}


# ------------------------------------------------------------------------------------------------
# oracle: exact interpreter with error bounds


def is_num(x):
    return isinstance(x, (int, float)) and not isinstance(x, bool)


class Q:
    __slots__ = ("vals", "errs", "dim", "arr", "sys")

    def __init__(self, vals, errs, dim, arr, sys_):
        self.vals, self.errs, self.dim, self.arr, self.sys = vals, errs, dim, arr, sys_


_MINS = {k: min(si.BASE[k].values()) for k in KINDS}
_MAXS = {k: max(si.BASE[k].values()) for k in KINDS}
BIG = F(10) ** 250


def _range_check(q):
    for k in KINDS:
        if abs(q.dim[k]) > 4:
            raise Skip("dim>4")
    lo = hi = F(1)
    for k in KINDS:
        e = q.dim[k]
        if e > 0:
            lo *= _MINS[k] ** e
            hi *= _MAXS[k] ** e
        elif e < 0:
            lo *= _MAXS[k] ** e
            hi *= _MINS[k] ** e
    for v in q.vals:
        a = abs(v)
        if a == 0:
            continue
        if a / lo > BIG or a / hi < 1 / BIG:
            raise Skip("range")


def _num_as_q(x, other):
    """A plain number adopting the units the other operand is stored in."""
    if other.sys is None:
        raise Skip("number meets intermediate of unspecified storage system")
    s = si.scale(other.sys, other.dim)
    return Q([x * s], [F(0)], other.dim, False, other.sys)


def _bcast(a, b):
    if a.arr and b.arr:
        if len(a.vals) != len(b.vals):
            raise Err("length mismatch")
        return list(zip(a.vals, a.errs, b.vals, b.errs))
    n = max(len(a.vals), len(b.vals))
    av = a.vals * n if not a.arr else a.vals
    ae = a.errs * n if not a.arr else a.errs
    bv = b.vals * n if not b.arr else b.vals
    be = b.errs * n if not b.arr else b.errs
    return list(zip(av, ae, bv, be))


def _same_sys(a, b):
    if a.sys is not None and b.sys is not None and a.sys == b.sys:
        return a.sys
    return None


def ev(n, info):
    k = n["k"]
    if k == "num":
        return n["v"]            # a plain Python number: int or float, combined by Python itself
    if k == "uv":
        s = si.scale(n["sys"], n["dim"])
        q = Q([F(n["v"]) * s], [F(0)], dict(n["dim"]), False, dict(n["sys"]))
        _range_check(q)
        return q
    if k == "ua":
        s = si.scale(n["sys"], n["dim"])
        q = Q([F(v) * s for v in n["v"]], [F(0)] * len(n["v"]), dict(n["dim"]), True, dict(n["sys"]))
        _range_check(q)
        return q
    if k in ("neg", "abs"):
        a = ev(n["a"], info)
        if is_num(a):
            return -a if k == "neg" else abs(a)
        return Q([(-v if k == "neg" else abs(v)) for v in a.vals], list(a.errs), a.dim, a.arr, a.sys)
    if k == "pow":
        a = ev(n["a"], info)
        num, den = n["e"]
        if is_num(a) or a.arr:
            raise Skip("pow on non-scalar-quantity")
        dim = {}
        for kk in KINDS:
            if (a.dim[kk] * num) % den != 0:
                raise Err("non-integer exponent")
            dim[kk] = a.dim[kk] * num // den
        v, e = a.vals[0], a.errs[0]
        if v == 0 or e * 1000 > abs(v):
            raise Skip("pow base too uncertain")
        if den == 1:
            w = v ** num
        else:
            if v < 0:
                raise Skip("root of negative")
            # the root is taken on the stored value: x_si^(1/den) = (x_stored^(1/den)) * scale^(1/den);
            # evaluate in floats on the SI magnitude via logs to avoid overflow
            w = F(math.exp(math.log(v.numerator) / den - math.log(v.denominator) / den))
        rel = abs(F(num, den)) * (e / abs(v)) * 2 + EPS
        q = Q([w], [abs(w) * rel], dim, False, a.sys)
        _range_check(q)
        return q
    # binary
    op = n["op"]
    a = ev(n["a"], info)
    b = ev(n["b"], info)
    if is_num(a) and is_num(b):
        # number (op) number never reaches strengths: it is ordinary Python arithmetic, rounding included
        try:
            if op == "+":
                r = a + b
            elif op == "-":
                r = a - b
            elif op == "*":
                r = a * b
            elif op == "/":
                r = a / b
            else:
                r = a % b
        except ZeroDivisionError:
            raise Skip("zero divisor")
        if isinstance(r, float) and (r != r or r in (float("inf"), float("-inf"))):
            raise Skip("number overflow")
        return r
    if op in "+-%":
        if is_num(a):
            a = _num_as_q(F(a), b)
        elif is_num(b):
            b = _num_as_q(F(b), a)
        else:
            if a.dim != b.dim:
                raise Err("dimension mismatch in " + op)
            _mark_mixed(a, b, info)
        rows = _bcast(a, b)
        vals, errs = [], []
        for av, ae, bv, be in rows:
            if op == "+":
                vals.append(av + bv)
                errs.append(ae + be + EPS * (abs(av) + abs(bv)))
            elif op == "-":
                vals.append(av - bv)
                errs.append(ae + be + EPS * (abs(av) + abs(bv)))
            else:
                if bv == 0 or be * 1000 > abs(bv):
                    raise Skip("modulus too uncertain")
                qt = av / bv
                dq = (ae + abs(qt) * be) / abs(bv) + EPS * abs(qt)
                fl = math.floor(qt)
                if min(qt - fl, fl + 1 - qt) <= 4 * dq + F(1, 10 ** 9):
                    raise Skip("modulo near a discontinuity")
                if abs(qt) < 10 ** 6:
                    info["mod_informative"] = True
                vals.append(av - bv * fl)
                errs.append(ae + abs(fl) * be + EPS * (abs(av) + abs(bv * fl)))
        q = Q(vals, errs, dict(a.dim), a.arr or b.arr, _same_sys(a, b))
        _range_check(q)
        return q
    # * and /
    if is_num(a):
        a = Q([F(a)], [F(0)], {kk: 0 for kk in KINDS}, False, b.sys)
        sys_ = b.sys
    elif is_num(b):
        b = Q([F(b)], [F(0)], {kk: 0 for kk in KINDS}, False, a.sys)
        sys_ = a.sys
    else:
        _mark_mixed(a, b, info)
        sys_ = _same_sys(a, b)
    rows = _bcast(a, b)
    vals, errs = [], []
    for av, ae, bv, be in rows:
        if op == "*":
            vals.append(av * bv)
            errs.append(abs(av) * be + abs(bv) * ae + ae * be + EPS * abs(av * bv))
        else:
            if bv == 0 or be * 1000 > abs(bv):
                raise Skip("divisor too uncertain")
            vals.append(av / bv)
            errs.append((ae + abs(av / bv) * be) / (abs(bv) - be) + EPS * abs(av / bv))
    sgn = 1 if op == "*" else -1
    dim = {kk: a.dim[kk] + sgn * b.dim[kk] for kk in KINDS}
    q = Q(vals, errs, dim, a.arr or b.arr, sys_)
    _range_check(q)
    return q


def _mark_mixed(a, b, info):
    if a.sys is not None and b.sys is not None:
        for kk in KINDS:
            if a.sys[kk] != b.sys[kk] and (a.dim[kk] != 0 or b.dim[kk] != 0):
                info["mixed"] = True


# ------------------------------------------------------------------------------------------------
# the code under test


def build(n):
    k = n["k"]
    if k == "num":
        return n["v"]
    if k in ("uv", "ua"):
        u = S.Units(S.UnitsSystem(**n["sys"]), S.UnitsDimensions(**n["dim"]))
        return S.UnitValue(n["v"], u) if k == "uv" else S.UnitArray(list(n["v"]), u)
    if k == "neg":
        return -build(n["a"])
    if k == "abs":
        return abs(build(n["a"]))
    if k == "pow":
        num, den = n["e"]
        return build(n["a"]) ** (num if den == 1 else num / den)
    a, b = build(n["a"]), build(n["b"])
    op = n["op"]
    if op == "+":
        return a + b
    if op == "-":
        return a - b
    if op == "*":
        return a * b
    if op == "/":
        return a / b
    return a % b


def render(n):
    k = n["k"]
    if k == "num":
        return repr(n["v"])
    if k == "uv":
        return "UV(%r %s)" % (n["v"], si.unit_str(n["sys"], n["dim"]) or "1")
    if k == "ua":
        return "UA(%r %s)" % (n["v"], si.unit_str(n["sys"], n["dim"]) or "1")
    if k in ("neg", "abs"):
        return ("-" if k == "neg" else "abs") + "(" + render(n["a"]) + ")"
    if k == "pow":
        return "(" + render(n["a"]) + ")**(%d/%d)" % tuple(n["e"])
    return "(" + render(n["a"]) + " " + n["op"] + " " + render(n["b"]) + ")"


def _count_ops(n, c):
    if n["k"] == "bin":
        c.append("op:" + n["op"] + ":" + typ(n["a"]) + typ(n["b"]))
        _count_ops(n["a"], c)
        _count_ops(n["b"], c)
    elif n["k"] in ("neg", "abs", "pow"):
        c.append("op:" + n["k"])
        _count_ops(n["a"], c)


def check_expr(ctx, c):
    t = c["expr"]
    info = {}
    outcome = "value"
    try:
        want = ev(t, info)
    except Skip as s:
        ctx.skip(str(s))
        return
    except Err as e:
        outcome = "error"
        want = str(e)
    classes = ["outcome:" + outcome]
    _count_ops(t, classes)
    if info.get("mod_informative"):
        classes.append("mod_informative")
    ctx.note(c, bool(info.get("mixed")) or outcome == "error", sorted(set(classes)))
    try:
        got = build(t)
        raised = None
    except Exception as e:  # noqa: BLE001
        raised = e
    if outcome == "error":
        if raised is None:
            raise Violation("%s is dimensionally meaningless (%s) but returned %s" % (render(t), want, got),
                            key="expr:accepted")
        return
    if raised is not None:
        raise Violation("%s raised %s: %s" % (render(t), type(raised).__name__, str(raised)[:200]),
                        key="expr:raised")
    if is_num(want):
        return
    if want.arr != isinstance(got, S.UnitArray) or (not want.arr and not isinstance(got, S.UnitValue)):
        raise Violation("%s returned a %s" % (render(t), type(got).__name__), key="expr:type")
    gdim = si.dimdict(got.units.dim)
    if gdim != want.dim:
        raise Violation("%s has dimension %s, expected %s" % (render(t), gdim, want.dim), key="expr:dim")
    gv = si.si_values(got) if want.arr else [si.si_value(got)]
    if len(gv) != len(want.vals):
        raise Violation("%s has length %d, expected %d" % (render(t), len(gv), len(want.vals)), key="expr:len")
    for g, w, e in zip(gv, want.vals, want.errs):
        if abs(g - w) > 10 * e + EPS * abs(w):
            raise Violation("%s = %r (SI), exact SI arithmetic gives %r" % (render(t), float(g), float(w)),
                            key="expr:value")


def check_cmp(ctx, c):
    info = {}
    op = c["cmp"]
    identical = c["a"] == c["b"] and c["a"]["k"] == "uv"
    outcome = None
    try:
        a = ev(c["a"], info)
        b = ev(c["b"], info)
        if is_num(a) and is_num(b):
            raise Skip("number vs number")
        if is_num(a) or is_num(b):
            if is_num(a):
                a = _num_as_q(F(a), b)
            else:
                b = _num_as_q(F(b), a)
        elif a.dim != b.dim:
            if op == "==":
                outcome = False
            elif op == "!=":
                outcome = True
            else:
                raise Err("ordering of different dimensions")
        else:
            _mark_mixed(a, b, info)
        if outcome is None:
            av, bv = a.vals[0], b.vals[0]
            if identical:
                outcome = {"<": False, "<=": True, ">": False, ">=": True, "==": True, "!=": False}[op]
            else:
                if abs(av - bv) <= 4 * (a.errs[0] + b.errs[0]) + F(1, 10 ** 9) * (abs(av) + abs(bv)):
                    raise Skip("comparison of near-equal operands")
                outcome = {"<": av < bv, "<=": av <= bv, ">": av > bv, ">=": av >= bv,
                           "==": False, "!=": True}[op]
    except Skip as s:
        ctx.skip(str(s))
        return
    except Err:
        outcome = "error"
    ctx.note(c, bool(info.get("mixed")) or outcome == "error" or identical,
             ["cmp:" + op, "cmp-outcome:" + str(outcome)] + (["cmp:identical"] if identical else []))
    text = "%s %s %s" % (render(c["a"]), op, render(c["b"]))
    try:
        x, y = build(c["a"]), build(c["b"])
        got = {"<": lambda: x < y, "<=": lambda: x <= y, ">": lambda: x > y, ">=": lambda: x >= y,
               "==": lambda: x == y, "!=": lambda: x != y}[op]()
        raised = None
    except Exception as e:  # noqa: BLE001
        raised = e
    if outcome == "error":
        if raised is None:
            raise Violation("%s compares different dimensions but returned %r" % (text, got), key="cmp:accepted")
        return
    if raised is not None:
        raise Violation("%s raised %s: %s" % (text, type(raised).__name__, str(raised)[:200]), key="cmp:raised")
    if bool(got) != outcome or not isinstance(got, (bool,)) and type(got).__name__ not in ("bool", "bool_"):
        raise Violation("%s returned %r, exact SI comparison gives %r" % (text, got, outcome), key="cmp:value")


def strat_expr(ctx):
    return expr_case()


def strat_cmp(ctx):
    return cmp_case()


FACETS = [
    Facet("expression", check_expr, strategy=strat_expr, examples=(16000, 600000), shards=(16, 16)),
    Facet("comparison", check_cmp, strategy=strat_cmp, examples=(8000, 200000), shards=(8, 16)),
]
