"""C20 Invalid input is rejected, never silently accepted."""
import copy
import itertools

from hypothesis import strategies as st

from vlib import gen, si
from vlib import build_model as B
from vlib.ratelaw import Model
from vlib.runner import Facet, Violation, must_raise, sut_call
from vlib import sut  # noqa: F401
import strengths as S
from strengths import kinetics as K
from strengths.coarsegrain import coarsegrain_grid, coarsegrain_system, check_index_map_validity

PROPERTY = "C20"
LEVEL = "fault_enumeration"
RULE = ("dict_faults: a valid random model rendered as the script dictionary + ONE fault from a catalogue "
        "derived clause by clause from the statement (unknown key / two aliases of one key / missing "
        "mandatory key at every dictionary level; wrong-dimension quantity in every dimensioned field; "
        "unsupported unit symbol in a units system or unit string; non-positive grid size; environment map "
        "of wrong length or naming an index outside the environment list; unknown boundary condition / axis "
        "/ sampling policy; empty environment list; 'default' as environment name): the reader must raise "
        "and the fault-free twin must be accepted. ctor_faults: the same classes through constructors and "
        "setters (incl. processing mode), object unchanged after a refused setter. positions: exhaustive "
        "over grids up to 3x3x3 and graphs up to 6 nodes: every linear index in [-2n,3n] outside [0,n) and "
        "every coordinate triple with one component out of range, through every accessor that takes a "
        "position (spaces, system get/set, apply_reaction, kinetics functions, trajectory accessors), "
        "state unchanged afterwards. species: unknown label / index out of range / negative through every "
        "accessor. cgmaps: a valid coarse-graining map + one violation of its rules. Non-trivial: fault at "
        "nesting depth >= 1 or in a per-environment dict (dict facet); every case of the other facets.")
ASSUMPTIONS = ["the catalogue entries cite the statement's clauses; nothing is invalid merely by name",
               "exception type is irrelevant (any exception counts as rejection)"]
EXHAUSTIVE_PART = "facet 'positions': all grids w,h,d in 1..3 and path graphs with 1..6 nodes, all out-of-range positions listed in RULE"

SYN = {
    "script": [["system"], ["t_sample"], ["time_step", "time step", "dt"], ["t_max", "tmax"],
               ["sampling_policy", "sampling policy"], ["sampling_interval", "sampling interval"],
               ["rng_seed", "rng seed", "seed"], ["init_state_processing", "init state processing"],
               ["units", "units_system", "units system", "u"]],
    "system": [["network", "rdnetwork"], ["space", "rdspace"], ["state"], ["chemostats"],
               ["units", "units_system", "units system", "u"]],
    "network": [["species"], ["reactions"], ["environments", "env"], ["units", "units_system", "units system", "u"]],
    "species": [["label", "l"], ["D", "diff_coef", "diffusion_coefficient", "diff coef", "diffusion coefficient"],
                ["density", "concentration", "dens", "conc", "C"], ["chstt", "chemostat"],
                ["units", "units_system", "units system", "u"]],
    "reaction": [["stoichiometry", "eq", "sto", "equation"], ["label", "l"], ["k+", "kf"], ["k-", "kr"],
                 ["units", "units_system", "units system", "u"]],
    "grid": [["type"], ["w", "width"], ["h", "height"], ["d", "depth"],
             ["cell_env", "cell_environments", "cell environments", "environments", "env"],
             ["cell_volume", "cell_vol"], ["boundary_conditions"], ["units", "units_system", "units system", "u"]],
    "graph": [["type"], ["nodes"], ["edges"], ["units", "units_system", "units system", "u"]],
    "node": [["volume", "vol"], ["environment", "env"], ["units", "units_system", "units system", "u"]],
    "edge": [["nodes"], ["surface"], ["distance"], ["units", "units_system", "units system", "u"]],
    "unitarray": [["value"], ["units"]],
    "unitssystem": [["space"], ["time"], ["quantity"]],
}
MANDATORY = {"script": ["system", "t_sample"], "system": ["network"], "network": ["species"],
             "species": ["label"], "reaction": ["stoichiometry"], "edge": ["nodes"],
             "unitarray": ["value", "units"]}
# dimensioned fields per level: key -> dimension (None: depends on the reaction order)
DIMFIELDS = {"script": {"time_step": gen.DIM_TIME, "t_max": gen.DIM_TIME, "sampling_interval": gen.DIM_TIME},
             "species": {"D": gen.DIM_D, "density": gen.DIM_DENS},
             "reaction": {"k+": None, "k-": None},
             "grid": {"cell_volume": gen.DIM_VOL},
             "node": {"volume": gen.DIM_VOL},
             "edge": {"surface": gen.DIM_SFC, "distance": gen.DIM_LEN}}
OTHER_DIMS = [gen.DIM_TIME, gen.DIM_D, gen.DIM_DENS, gen.DIM_VOL, gen.DIM_SFC, gen.DIM_LEN, gen.DIM_QTY,
              gen.dim_k(0), gen.dim_k(1), gen.dim_k(2), gen.dim_k(3), {"space": 0, "time": 0, "quantity": 0}]


def script_dict(spec, extra):
    d = {"system": B.system_dict(spec), "t_sample": [0, 1.0, 2.0], "time_step": 0.01, "t_max": 2.0,
         "sampling_policy": extra["policy"], "sampling_interval": 0.5, "rng_seed": 3}
    if extra["tsample_dict"]:
        d["t_sample"] = {"value": [0, 1.0, 2.0], "units": "s"}
    if extra["script_units"]:
        d["units"] = dict(extra["script_units"])
    return d


def _get(dd, kind, primary, default=None):
    """value of a key whatever alias is used"""
    for group in SYN[kind]:
        if group[0] == primary:
            for k in group:
                if k in dd:
                    return dd[k]
    return default


def levels(d):
    """-> list of (kind, dict, depth) for every dictionary level of a script dict (alias-aware)"""
    out = [("script", d, 0)]
    if isinstance(_get(d, "script", "t_sample"), dict):
        out.append(("unitarray", _get(d, "script", "t_sample"), 1))
    if isinstance(_get(d, "script", "units"), dict):
        out.append(("unitssystem", _get(d, "script", "units"), 1))
    sy = _get(d, "script", "system")
    if not isinstance(sy, dict):
        return out
    out.append(("system", sy, 1))
    if isinstance(_get(sy, "system", "units"), dict):
        out.append(("unitssystem", _get(sy, "system", "units"), 2))
    if isinstance(_get(sy, "system", "state"), dict):
        out.append(("unitarray", _get(sy, "system", "state"), 2))
    net = _get(sy, "system", "network")
    if isinstance(net, dict):
        out.append(("network", net, 2))
        if isinstance(_get(net, "network", "units"), dict):
            out.append(("unitssystem", _get(net, "network", "units"), 3))
        for s_ in _get(net, "network", "species", []):
            out.append(("species", s_, 3))
            if isinstance(_get(s_, "species", "units"), dict):
                out.append(("unitssystem", _get(s_, "species", "units"), 4))
        for r in _get(net, "network", "reactions", []):
            out.append(("reaction", r, 3))
            if isinstance(_get(r, "reaction", "units"), dict):
                out.append(("unitssystem", _get(r, "reaction", "units"), 4))
    sp = _get(sy, "system", "space")
    if isinstance(sp, dict):
        kind = sp.get("type", "grid")
        out.append((kind, sp, 2))
        if isinstance(_get(sp, kind, "units"), dict):
            out.append(("unitssystem", _get(sp, kind, "units"), 3))
        if kind == "graph":
            for nd in sp["nodes"]:
                out.append(("node", nd, 3))
                if isinstance(_get(nd, "node", "units"), dict):
                    out.append(("unitssystem", _get(nd, "node", "units"), 4))
            for e in sp["edges"]:
                out.append(("edge", e, 3))
                if isinstance(_get(e, "edge", "units"), dict):
                    out.append(("unitssystem", _get(e, "edge", "units"), 4))
    return out


FAULTS = ["unknown-key", "alias-twice", "missing-mandatory", "wrong-dimension", "bad-unit-symbol-system",
          "bad-unit-symbol-string", "grid-size", "env-map-length", "env-index-beyond", "env-index-negative",
          "bad-boundary-condition", "bad-axis", "bad-sampling-policy", "empty-environments", "default-environment",
          "bad-units-word", "wrong-dimension-state", "wrong-dimension-t_sample"]


def reaction_order(r, side):
    sto = r["stoichiometry"]
    if isinstance(sto, str):
        rr = S.Reaction(sto)
        return rr.order() if side == "k+" else rr.rorder()
    return sum(sto[0].values()) if side == "k+" else sum(sto[1].values())


def inject(d, fault, pick, spec):
    """Mutate the script dict d in place. -> (description, depth, in_env_dict) or None if not applicable"""
    lv = levels(d)
    if fault == "unknown-key":
        kind, dd, depth = lv[pick % len(lv)]
        dd["zz_not_a_key"] = 1
        return "unknown key in %s" % kind, depth, False
    if fault == "alias-twice":
        cands = []
        for kind, dd, depth in lv:
            for group in SYN[kind]:
                if len(group) >= 2:
                    present = [k for k in group if k in dd]
                    if len(present) == 1:
                        cands.append((kind, dd, depth, group, present[0]))
        if not cands:
            return None
        kind, dd, depth, group, present = cands[pick % len(cands)]
        others = [k for k in group if k != present]
        if len(group) >= 3 and (pick // 3) % 2 == 1:
            # neither of the two spellings is the one that is already there (in particular not the reference spelling)
            a1 = others[(pick // 7) % len(others)]
            a2 = [k for k in others if k != a1][(pick // 11) % (len(others) - 1)]
            val = dd.pop(present)
            dd[a1] = val
            dd[a2] = copy.deepcopy(val)
            return "aliases %r and %r together (without %r) in %s" % (a1, a2, present, kind), depth, False
        other = others[(pick // 7) % (len(group) - 1)]
        dd[other] = copy.deepcopy(dd[present])
        return "aliases %r and %r together in %s" % (present, other, kind), depth, False
    if fault == "missing-mandatory":
        cands = [(kind, dd, depth, k) for kind, dd, depth in lv for k in MANDATORY.get(kind, []) if k in dd]
        kind, dd, depth, k = cands[pick % len(cands)]
        del dd[k]
        return "mandatory key %r missing in %s" % (k, kind), depth, False
    if fault == "wrong-dimension":
        cands = []
        for kind, dd, depth in lv:
            for k, dim in DIMFIELDS.get(kind, {}).items():
                if k in dd:
                    cands.append((kind, dd, depth, k, dim))
        kind, dd, depth, k, dim = cands[pick % len(cands)]
        if dim is None:
            dim = gen.dim_k(reaction_order(dd, k))
        wrong = [o for o in OTHER_DIMS if o != dim][(pick // 5) % (len(OTHER_DIMS) - 1)]
        bad = ("1.5 " + si.unit_str(si.DEFAULT_SYS, wrong)).strip()
        in_env = False
        if isinstance(dd[k], dict) and not ("value" in dd[k]):
            key = sorted(dd[k])[pick % len(dd[k])] if dd[k] else "default"
            dd[k][key] = bad
            in_env = True
        else:
            dd[k] = bad
        return "%s.%s given as %r" % (kind, k, bad), depth, in_env
    if fault == "bad-unit-symbol-system":
        cands = [(dd, depth) for kind, dd, depth in lv if kind == "unitssystem"]
        if not cands:
            d["units"] = {"space": "µm", "time": "s", "quantity": "molecule"}
            cands = [(d["units"], 1)]
        dd, depth = cands[pick % len(cands)]
        k = ["space", "time", "quantity"][pick % 3]
        dd[k] = ["parsec", "s", "Mol", "µmole", "sec", "km", "mol", "M", "L"][(pick // 3) % 9]
        if dd[k] in {"space": si.SPACE_SYMS, "time": si.TIME_SYMS, "quantity": si.QUANTITY_SYMS}[k]:
            dd[k] = "furlong"
        return "unsupported %s unit %r in a units system" % (k, dd[k]), depth, False
    if fault == "bad-unit-symbol-string":
        cands = []
        for kind, dd, depth in lv:
            for k in DIMFIELDS.get(kind, {}):
                if k in dd and not isinstance(dd[k], dict):
                    cands.append((kind, dd, depth, k))
        kind, dd, depth, k = cands[pick % len(cands)]
        dd[k] = "2.0 " + ["parsec3", "furlong/fortnight", "Mol", "µmole/L", "sec-1"][(pick // 5) % 5]
        return "%s.%s with unsupported unit %r" % (kind, k, dd[k]), depth, False
    sp = d["system"]["space"]
    net = d["system"]["network"]
    if fault == "grid-size":
        if sp["type"] != "grid":
            return None
        ax = "whd"[pick % 3]
        sp[ax] = [0, -1, -3][(pick // 3) % 3]
        sp.pop("cell_env", None)
        return "grid %s = %d" % (ax, sp[ax]), 2, False
    if fault == "env-map-length":
        if sp["type"] != "grid":
            return None
        n = sp["w"] * sp["h"] * sp["d"]
        sp["cell_env"] = [0] * (n + [1, -1, 2][(pick // 3) % 3] if n + [1, -1, 2][(pick // 3) % 3] > 0 else n + 1)
        return "cell_env of length %d for %d cells" % (len(sp["cell_env"]), n), 2, False
    if fault in ("env-index-beyond", "env-index-negative"):
        nenv = len(net["environments"])
        bad = nenv + (pick % 2) if fault == "env-index-beyond" else -1 - (pick % 2)
        if sp["type"] == "grid":
            n = sp["w"] * sp["h"] * sp["d"]
            ce = sp["cell_env"] if isinstance(sp["cell_env"], list) else [sp["cell_env"]] * n
            ce = list(ce)
            ce[pick % n] = bad
            sp["cell_env"] = ce
        else:
            sp["nodes"][pick % len(sp["nodes"])]["environment"] = bad
        return "a cell names environment %d of %d" % (bad, nenv), 2, False
    if fault == "bad-boundary-condition":
        if sp["type"] != "grid":
            return None
        sp["boundary_conditions"] = dict(sp.get("boundary_conditions", {}))
        sp["boundary_conditions"]["xyz"[pick % 3]] = ["open", "periodic", "Reflecting", "absorbing", ""][(pick // 3) % 5]
        return "boundary condition %r" % sp["boundary_conditions"], 2, False
    if fault == "bad-axis":
        if sp["type"] != "grid":
            return None
        sp["boundary_conditions"] = dict(sp.get("boundary_conditions", {}))
        sp["boundary_conditions"][["w", "X", "t", "xy"][pick % 4]] = "reflecting"
        return "boundary axis %r" % sorted(sp["boundary_conditions"]), 2, False
    if fault == "bad-sampling-policy":
        d["sampling_policy"] = ["sometimes", "on_sample", "On_iteration", "", "none"][pick % 5]
        return "sampling policy %r" % d["sampling_policy"], 0, False
    if fault == "empty-environments":
        net["environments"] = []
        return "empty environment list", 2, False
    if fault == "default-environment":
        envs = list(net["environments"])
        envs[pick % len(envs)] = "default"
        net["environments"] = envs
        return "'default' used as an environment name", 2, False
    if fault == "bad-units-word":
        cands = [(kind, dd, depth) for kind, dd, depth in lv if kind in ("system", "network", "species", "reaction", "grid", "graph", "node", "edge", "script")]
        kind, dd, depth = cands[pick % len(cands)]
        dd["units"] = ["SI", "inherited", "none", "Default"][(pick // 5) % 4]
        return "units = %r in %s" % (dd["units"], kind), depth, False
    if fault == "wrong-dimension-state":
        n = len(Model(spec).state())
        d["system"]["state"] = {"value": [1.0] * n, "units": ["s", "µm3", "molecule/µm3", "mol/s"][pick % 4]}
        return "state given in %s" % d["system"]["state"]["units"], 1, False
    if fault == "wrong-dimension-t_sample":
        d["t_sample"] = {"value": [0, 1.0], "units": ["m", "mol", "s-1", "µm2/s"][pick % 4]}
        return "t_sample given in %s" % d["t_sample"]["units"], 0, False
    return None


def strat_dict(ctx):
    return st.fixed_dictionaries({
        "sys": gen.system_spec(variety="mild", max_species=3, max_reactions=2, max_order=3, max_cells=8, max_axis=3,
                               chemostats="mixed", simple_graph=False),
        "fault": st.sampled_from(FAULTS), "pick": st.integers(0, 10 ** 6),
        "extra": st.fixed_dictionaries({"policy": st.sampled_from(["on_t_sample", "on_iteration", "on_interval", "no_sampling"]),
                                        "tsample_dict": st.booleans(),
                                        "script_units": st.one_of(st.none(), gen.us_mild)}),
    })


def check_dict(ctx, c):
    spec = c["sys"]
    good = script_dict(spec, c["extra"])
    bad = copy.deepcopy(good)
    r = inject(bad, c["fault"], c["pick"], spec)
    if r is None:
        ctx.skip("fault not applicable: " + c["fault"])
        return
    desc, depth, in_env = r
    ctx.note(c, depth >= 1 or in_env, ["fault:" + c["fault"], "depth:%d" % depth] + (["in-env-dict"] if in_env else []))
    # the fault-free twin is accepted (guards against a catalogue entry that is not reached)
    sut_call("rdscript_from_dict(valid twin)", S.rdscript_from_dict, copy.deepcopy(good))
    must_raise("rdscript_from_dict with %s" % desc, S.rdscript_from_dict, bad)
    # the same fault presented to the sub-reader that owns it
    if "system" in bad and bad["system"] != good["system"]:
        must_raise("rdsystem_from_dict with %s" % desc, S.rdsystem_from_dict, copy.deepcopy(bad["system"]))


# ---- constructors and setters -------------------------------------------------------------------------

CTOR_FAULTS = ["grid-size", "bc-value", "bc-axis", "policy", "mode", "units-symbol", "env-empty", "env-default",
               "env-map-length", "species-D-dim", "species-density-dim", "reaction-k-dim", "grid-vol-dim",
               "node-vol-dim", "edge-sfc-dim", "edge-dst-dim", "script-time-dim", "state-dim", "env-index",
               "unit-string", "network-species", "array-element-dim"]


def strat_ctor(ctx):
    return st.fixed_dictionaries({"fault": st.sampled_from(CTOR_FAULTS), "pick": st.integers(0, 10 ** 6),
                                  "form": st.sampled_from(["str", "uv"]), "us": gen.us_mild})


def wrong_q(dim, pick, form):
    wrong = [o for o in OTHER_DIMS if o != dim][pick % (len(OTHER_DIMS) - 1)]
    text = ("2.5 " + si.unit_str(si.DEFAULT_SYS, wrong)).strip()
    return text if form == "str" else S.UnitValue(text)


def right_q(dim, form):
    text = ("2.5 " + si.unit_str(si.DEFAULT_SYS, dim)).strip()
    return text if form == "str" else S.UnitValue(text)


def refused_setter(obj, attr, bad, good, what):
    sut_call("%s = <valid>" % what, setattr, obj, attr, good)
    before = str(getattr(obj, attr))
    must_raise("%s = %r" % (what, str(bad)), setattr, obj, attr, bad)
    if str(getattr(obj, attr)) != before:
        raise Violation("%s refused %r but its value changed" % (what, str(bad)), key="ctor:refused-but-changed")


def check_ctor(ctx, c):
    f, pick, form = c["fault"], c["pick"], c["form"]
    ctx.note(c, True, ["ctor:" + f])
    U = B.US(c["us"])
    if f == "grid-size":
        kw = {"w": 2, "h": 2, "d": 2}
        kw["whd"[pick % 3]] = [0, -1, -5][(pick // 3) % 3]
        sut_call("RDGridSpace(valid)", S.RDGridSpace, w=2, h=2, d=2)
        must_raise("RDGridSpace(%s)" % kw, S.RDGridSpace, **kw)
    elif f == "bc-value":
        g = S.RDGridSpace(w=2, h=2)
        bad = {"xyz"[pick % 3]: ["open", "periodic", "Reflecting", "", None, 1][(pick // 3) % 6]}
        must_raise("RDGridSpace(boundary_conditions=%r)" % bad, S.RDGridSpace, w=2, boundary_conditions=bad)
        must_raise("set_boundary_conditions(%r)" % bad, g.set_boundary_conditions, bad)
        sut_call("set_boundary_conditions(valid)", g.set_boundary_conditions, {"x": "periodical"})
    elif f == "bc-axis":
        g = S.RDGridSpace(w=2, h=2)
        bad = {["w", "X", "t", "xy", 0][pick % 5]: "reflecting"}
        must_raise("set_boundary_conditions(%r)" % bad, g.set_boundary_conditions, bad)
        must_raise("RDGridSpace(boundary_conditions=%r)" % bad, S.RDGridSpace, w=2, boundary_conditions=bad)
    elif f in ("policy", "mode", "script-time-dim"):
        system = S.RDSystem(S.RDNetwork([S.Species("A")], []), S.RDGridSpace())
        sc = sut_call("RDScript(valid)", S.RDScript, system, [0, 1], units_system=U)
        if f == "policy":
            bad = ["sometimes", "on_sample", "On_iteration", "", 3, None][pick % 6]
            must_raise("RDScript(sampling_policy=%r)" % (bad,), S.RDScript, system, [0, 1], sampling_policy=bad)
            refused_setter(sc, "sampling_policy", bad, "on_interval", "script.sampling_policy")
        elif f == "mode":
            bad = ["floor", "poisson", "Redist", "", 0, None, "round"][pick % 7]
            must_raise("RDScript(init_state_processing=%r)" % (bad,), S.RDScript, system, [0, 1], init_state_processing=bad)
            refused_setter(sc, "init_state_processing", bad, "Poisson", "script.init_state_processing")
        else:
            attr = ["time_step", "t_max", "sampling_interval"][pick % 3]
            refused_setter(sc, attr, wrong_q(gen.DIM_TIME, pick // 3, form), right_q(gen.DIM_TIME, form), "script." + attr)
            must_raise("RDScript(%s=<wrong dimension>)" % attr, S.RDScript, system, [0, 1], **{attr: wrong_q(gen.DIM_TIME, pick // 3, form)})
            must_raise("script.t_sample = UnitArray in metres", setattr, sc, "t_sample", S.UnitArray([0, 1], "m"))
    elif f == "units-symbol":
        k = ["space", "time", "quantity"][pick % 3]
        bad = ["parsec", "sec", "Mol", "s", "m", "mol", "M", "L", "", None, 3][(pick // 3) % 11]
        ok = {"space": si.SPACE_SYMS, "time": si.TIME_SYMS, "quantity": si.QUANTITY_SYMS}[k]
        if bad in ok:
            bad = "furlong"
        must_raise("UnitsSystem(%s=%r)" % (k, bad), S.UnitsSystem, **{k: bad})
        u = S.UnitsSystem()
        must_raise("UnitsSystem().%s = %r" % (k, bad), setattr, u, k, bad)
        must_raise("unitssystem_from_dict", S.unitssystem_from_dict, {"space": "m", "time": "s", "quantity": "mol", k: bad})
        must_raise("Species(units_system={..%s: %r})" % (k, bad), S.Species, "A", units_system={"space": "m", "time": "s", "quantity": "mol", k: bad})
    elif f == "unit-string":
        bad = ["parsec", "m/fortnight", "Mol", "µmole/L", "sec-1", "kg", "m2/s/x"][pick % 7]
        must_raise("UnitValue(1, %r)" % bad, S.UnitValue, 1, bad)
        must_raise("UnitArray([1], %r)" % bad, S.UnitArray, [1], bad)
        must_raise("Species(D='1 %s')" % bad, S.Species, "A", D="1 " + bad)
        must_raise("UnitValue('1 m').convert(%r)" % bad, S.UnitValue("1 m").convert, bad)
    elif f == "env-empty":
        sut_call("RDNetwork(valid)", S.RDNetwork, [S.Species("A")], [], ["a"])
        must_raise("RDNetwork(environments=[])", S.RDNetwork, [S.Species("A")], [], [])
        must_raise("RDNetwork(environments=())", S.RDNetwork, [S.Species("A")], [], ())
        net = S.RDNetwork([S.Species("A")], [], ["a"])
        must_raise("network.environments = []", setattr, net, "environments", [])
    elif f == "env-default":
        envs = [["default"], ["a", "default"], ["default", "b", "c"]][pick % 3]
        must_raise("RDNetwork(environments=%r)" % envs, S.RDNetwork, [S.Species("A")], [], envs)
        net = S.RDNetwork([S.Species("A")], [], ["a"])
        must_raise("network.environments = %r" % envs, setattr, net, "environments", envs)
    elif f == "env-map-length":
        n = 6
        bad = [0] * [5, 7, 0, 12][pick % 4]
        must_raise("RDGridSpace(w=3,h=2, cell_env of length %d)" % len(bad), S.RDGridSpace, w=3, h=2, cell_env=bad)
        g = S.RDGridSpace(w=3, h=2)
        must_raise("grid.cell_env = list of length %d" % len(bad), setattr, g, "cell_env", bad)
        sut_call("grid.cell_env = valid", setattr, g, "cell_env", [0] * n)
    elif f == "env-index":
        nenv = 1 + pick % 3
        envs = ["a", "b", "c"][:nenv]
        bad = [nenv, nenv + 1, -1, -nenv - 1][(pick // 3) % 4]
        net = S.RDNetwork([S.Species("A", density=1)], [], envs)
        which = (pick // 12) % 3
        if which == 0:
            sp_bad = S.RDGridSpace(w=2, cell_env=[0, bad])
            sp_ok = S.RDGridSpace(w=2, cell_env=[0, nenv - 1])
        else:
            sp_bad = S.RDGraphSpace(nodes=[S.RDGraphSpaceNode(environment=0), S.RDGraphSpaceNode(environment=bad)], edges=[S.RDGraphSpaceEdge(0, 1)])
            sp_ok = S.RDGraphSpace(nodes=[S.RDGraphSpaceNode(environment=0), S.RDGraphSpaceNode(environment=nenv - 1)], edges=[S.RDGraphSpaceEdge(0, 1)])
        sut_call("RDSystem(valid twin)", S.RDSystem, net, sp_ok, state=[1, 1], chemostats=[0, 0])
        must_raise("RDSystem whose space names environment %d of %d (explicit state and chemostats)" % (bad, nenv),
                   S.RDSystem, net, sp_bad, state=[1, 1], chemostats=[0, 0])
        must_raise("RDSystem whose space names environment %d of %d (default state)" % (bad, nenv), S.RDSystem, net, sp_bad)
    elif f in ("species-D-dim", "species-density-dim"):
        attr, dim = ("D", gen.DIM_D) if f == "species-D-dim" else ("density", gen.DIM_DENS)
        s_ = S.Species("A", units_system=U)
        bad = wrong_q(dim, pick, form)
        refused_setter(s_, attr, bad, right_q(dim, form), "species." + attr)
        must_raise("Species(%s=%r)" % (attr, str(bad)), S.Species, "A", **{attr: bad})
        must_raise("Species(%s={'a': %r})" % (attr, str(bad)), S.Species, "A", **{attr: {"a": bad, "default": 1}})
        must_raise("species.%s = array" % attr, setattr, s_, attr, [1, 2])
    elif f == "reaction-k-dim":
        eq = ["A -> B", "A + B -> C", "2 A -> ", " -> A", "A + 2 B -> 3 C"][pick % 5]
        r = S.Reaction(eq, units_system=U)
        side = ["kf", "kr"][(pick // 5) % 2]
        n = r.order() if side == "kf" else r.rorder()
        bad = wrong_q(gen.dim_k(n), pick // 10, form)
        refused_setter(r, side, bad, right_q(gen.dim_k(n), form), "reaction(%r).%s" % (eq, side))
        must_raise("Reaction(%r, %s=%r)" % (eq, side, str(bad)), S.Reaction, eq, **{side: bad})
    elif f == "grid-vol-dim":
        g = S.RDGridSpace(w=2, units_system=U)
        bad = wrong_q(gen.DIM_VOL, pick, form)
        refused_setter(g, "cell_vol", bad, right_q(gen.DIM_VOL, form), "grid.cell_vol")
        must_raise("RDGridSpace(cell_vol=%r)" % str(bad), S.RDGridSpace, w=2, cell_vol=bad)
    elif f == "node-vol-dim":
        nd = S.RDGraphSpaceNode(units_system=U)
        bad = wrong_q(gen.DIM_VOL, pick, form)
        refused_setter(nd, "volume", bad, right_q(gen.DIM_VOL, form), "node.volume")
        must_raise("RDGraphSpaceNode(volume=%r)" % str(bad), S.RDGraphSpaceNode, volume=bad)
    elif f in ("edge-sfc-dim", "edge-dst-dim"):
        attr, dim = ("surface", gen.DIM_SFC) if f == "edge-sfc-dim" else ("distance", gen.DIM_LEN)
        e = S.RDGraphSpaceEdge(0, 1, units_system=U)
        bad = wrong_q(dim, pick, form)
        refused_setter(e, attr, bad, right_q(dim, form), "edge." + attr)
        must_raise("RDGraphSpaceEdge(%s=%r)" % (attr, str(bad)), S.RDGraphSpaceEdge, 0, 1, **{attr: bad})
    elif f == "network-species":
        # statement: "unknown species"; code's own check: RDNetwork._assert_validity
        sp3 = lambda: [S.Species("A"), S.Species("B"), S.Species("C")]  # noqa: E731
        sut_call("RDNetwork(valid)", S.RDNetwork, sp3(), [S.Reaction("A + B -> C", label="r")])
        eq = ["A -> Z", "Z -> A", "A + B -> Z", "A + Z -> B", "A -> B + 2 Z", " -> Z", "Z -> ", "2 A -> A + Z"][pick % 8]
        must_raise("RDNetwork with reaction %r naming the undeclared species Z" % eq, S.RDNetwork, sp3(), [S.Reaction(eq)])
        must_raise("rdnetwork_from_dict with reaction %r naming the undeclared species Z" % eq, S.rdnetwork_from_dict,
                   {"species": [{"label": "A"}, {"label": "B"}, {"label": "C"}], "reactions": [{"stoichiometry": eq}]})
        dup = [["A", "B", "A"], ["A", "A"], ["B", "A", "C", "B"], ["C", "B", "A", "A"]][(pick // 8) % 4]
        must_raise("RDNetwork with species labels %s" % dup, S.RDNetwork, [S.Species(x) for x in dup], [])
        rl = [["r", "r"], ["a", "b", "a"], ["x", "y", "y"]][(pick // 32) % 3]
        must_raise("RDNetwork with reaction labels %s" % rl, S.RDNetwork, sp3(), [S.Reaction("A -> B", label=x) for x in rl])
    elif f == "array-element-dim":
        # an array field whose elements are quantities: one element of another dimension (same or other base units)
        system = S.RDSystem(S.RDNetwork([S.Species("A")], []), S.RDGridSpace(w=2))
        bad_t = [S.UnitValue(1, ["µm", "molecule", "m", "µm2/s", "mol"][pick % 5]), "1 " + ["µm", "molecule", "km", "s-1", "M"][pick % 5]][(pick // 5) % 2]
        sut_call("RDScript(t_sample=[UnitValue s, '2 min'])", S.RDScript, system, [S.UnitValue(0, "s"), "2 min"])
        must_raise("RDScript(t_sample=[0 s, %s])" % (bad_t if isinstance(bad_t, str) else str(bad_t)), S.RDScript, system, [S.UnitValue(0, "s"), bad_t])
        must_raise("UnitArray([1 s, %s], 's')" % (bad_t if isinstance(bad_t, str) else str(bad_t)), S.UnitArray, [S.UnitValue(1, "s"), bad_t], "s")
        bad_q = [S.UnitValue(1, ["µm", "s", "molecule/µm3", "molecule/s"][pick % 4]), "1 " + ["µm3", "ms", "mM", "mol/s"][pick % 4]][(pick // 4) % 2]
        sut_call("RDSystem(state=[UnitValue, str])", S.RDSystem, system.network, S.RDGridSpace(w=2), state=[S.UnitValue(1, "molecule"), "2 mol"])
        must_raise("RDSystem(state=[1 molecule, %s])" % (bad_q if isinstance(bad_q, str) else str(bad_q)), S.RDSystem, system.network, S.RDGridSpace(w=2),
                   state=[S.UnitValue(1, "molecule"), bad_q])
    elif f == "state-dim":
        net = S.RDNetwork([S.Species("A")], [])
        bad = S.UnitArray([1.0, 2.0], ["s", "µm3", "molecule/µm3", "mol/s", ""][pick % 5])
        must_raise("RDSystem(state=UnitArray in %s)" % bad.units, S.RDSystem, net, S.RDGridSpace(w=2), state=bad)
        system = S.RDSystem(net, S.RDGridSpace(w=2))
        before = [float(v) for v in system.state.value]
        must_raise("system.state = UnitArray in %s" % bad.units, setattr, system, "state", bad)
        must_raise("set_state(value in %s)" % bad.units, system.set_state, "A", 0, S.UnitValue(1.0, bad.units))
        if [float(v) for v in system.state.value] != before:
            raise Violation("a refused state changed the system", key="ctor:refused-but-changed")


# ---- positions (exhaustive) -------------------------------------------------------------------------------

class Coord:
    def __init__(self, x=0, y=0, z=0):
        self.x, self.y, self.z = x, y, z


def enum_positions(ctx):
    for w, h, d in itertools.product(range(1, 4), repeat=3):
        yield {"space": "grid", "shape": [w, h, d]}
    for n in range(1, 7):
        yield {"space": "graph", "n": n}


def check_positions(ctx, c):
    net = S.RDNetwork([S.Species("A", D=1.0, density=3.0), S.Species("B", D=0.5, density=2.0)],
                      [S.Reaction("A -> B", kf=1.0, label="r")])
    if c["space"] == "grid":
        w, h, d = c["shape"]
        n = w * h * d
        space = S.RDGridSpace(w=w, h=h, d=d)
    else:
        n = c["n"]
        space = S.RDGraphSpace(nodes=[S.RDGraphSpaceNode() for _ in range(n)],
                               edges=[S.RDGraphSpaceEdge(i, i + 1) for i in range(n - 1)])
    system = S.RDSystem(net, space)
    data = S.UnitArray([float(k) for k in range(2 * 2 * n)], "molecule")
    traj = S.RDTrajectory(data=data, t_sample=S.UnitArray([0.0, 1.0], "s"), system=system)
    bad_positions = [("index %d" % b, b) for b in list(range(-2 * n, 0)) + list(range(n, 3 * n + 1))]
    bad_positions += [("float index %r" % float(b), float(b)) for b in (-1, n, n + 0.5, 2 * n)]
    if c["space"] == "grid":
        dims = (w, h, d)
        for ax in range(3):
            for v in (-2, -1, dims[ax], dims[ax] + 1):
                t = [0, 0, 0]
                t[ax] = v
                bad_positions += [("tuple %s" % (tuple(t),), tuple(t)), ("list %s" % t, list(t)), ("object %s" % (tuple(t),), Coord(*t))]
    ctx.note(c, True, ["positions:" + c["space"]])
    state0 = [float(v) for v in system.state.value]
    flags0 = [int(v) for v in system.chemostats]
    good = 0
    for desc, pos in bad_positions:
        w_ = "%s on a %s of %d cells" % (desc, c["space"], n)
        must_raise("space.get_cell_index(%s)" % w_, space.get_cell_index, pos)
        must_raise("space.get_cell_env(%s)" % w_, space.get_cell_env, pos)
        must_raise("space.get_cell_vol(%s)" % w_, space.get_cell_vol, pos)
        must_raise("space.get_neighbors(%s)" % w_, space.get_neighbors, pos)
        must_raise("space.are_neighbors(0, %s)" % w_, space.are_neighbors, good, pos)
        must_raise("space.are_neighbors(%s, 0)" % w_, space.are_neighbors, pos, good)
        if c["space"] == "grid" and not isinstance(pos, (tuple, list, Coord)):
            must_raise("grid.get_cell_coordinates(%s)" % w_, space.get_cell_coordinates, pos)
        must_raise("system.get_cell_index(%s)" % w_, system.get_cell_index, pos)
        must_raise("system.get_state_index('B', %s)" % w_, system.get_state_index, "B", pos)
        must_raise("system.get_state('A', %s)" % w_, system.get_state, "A", pos)
        must_raise("system.get_chemostat('B', %s)" % w_, system.get_chemostat, "B", pos)
        must_raise("system.set_state('A', %s, 7)" % w_, system.set_state, "A", pos, 7)
        must_raise("system.set_chemostat('A', %s, 1)" % w_, system.set_chemostat, "A", pos, 1)
        must_raise("system.apply_reaction('r', position=%s)" % w_, system.apply_reaction, "r", position=pos, update=True)
        must_raise("compute_reaction_rates(position=%s)" % w_, K.compute_reaction_rates, system, "r", pos)
        must_raise("compute_dspeciesdt(position=%s)" % w_, K.compute_dspeciesdt, system, "A", pos)
        must_raise("compute_diffusion_rates(src=%s)" % w_, K.compute_diffusion_rates, system, "A", pos, good)
        must_raise("compute_diffusion_rates(dst=%s)" % w_, K.compute_diffusion_rates, system, "A", good, pos)
        must_raise("trajectory.get_trajectory('A', %s)" % w_, traj.get_trajectory, "A", pos)
        must_raise("trajectory.get_trajectory_point('B', 1, %s)" % w_, traj.get_trajectory_point, "B", 1, pos)
        if [float(v) for v in system.state.value] != state0 or [int(v) for v in system.chemostats] != flags0:
            raise Violation("a refused position (%s) still changed the system state / chemostat map" % w_,
                            key="positions:changed")
    ctx.count("positions", len(bad_positions))
    # sample index outside the trajectory
    for bad_n in (2, 3, -3):
        must_raise("trajectory.get_trajectory_point(sample %d of 2)" % bad_n, traj.get_trajectory_point, "A", bad_n, 0)
        must_raise("trajectory.get_state('A', sample %d of 2)" % bad_n, traj.get_state, "A", bad_n)


# ---- unknown species ---------------------------------------------------------------------------------------

def strat_species(ctx):
    return st.fixed_dictionaries({"ns": st.integers(1, 4), "space": st.sampled_from(["grid", "graph"]),
                                  "bad": st.sampled_from(["label", "label-case", "index-high", "index-neg", "object", "none"]),
                                  "pick": st.integers(0, 100)})


def check_species(ctx, c):
    labels = ["A", "B", "C", "D"][:c["ns"]]
    net = S.RDNetwork([S.Species(lb, D=1.0, density=1.0) for lb in labels], [S.Reaction("A -> A", kf=1.0, label="r")])
    space = S.RDGridSpace(w=2) if c["space"] == "grid" else S.RDGraphSpace(
        nodes=[S.RDGraphSpaceNode(), S.RDGraphSpaceNode()], edges=[S.RDGraphSpaceEdge(0, 1)])
    system = S.RDSystem(net, space)
    traj = S.RDTrajectory(data=S.UnitArray([0.0] * (2 * c["ns"]), "molecule"), t_sample=S.UnitArray([0.0], "s"), system=system)
    bad = {"label": ["Z", "AB", "", "a "][c["pick"] % 4], "label-case": "a", "index-high": c["ns"] + c["pick"] % 3,
           "index-neg": -1 - c["pick"] % 3, "object": S.Species("Q"), "none": None}[c["bad"]]
    ctx.note(c, True, ["species:" + c["bad"]])
    st0 = [float(v) for v in system.state.value]
    w_ = "unknown species %r" % (bad if not isinstance(bad, S.Species) else "Species('Q')",)
    must_raise("get_state(%s)" % w_, system.get_state, bad, 0)
    must_raise("set_state(%s)" % w_, system.set_state, bad, 0, 5)
    must_raise("get_chemostat(%s)" % w_, system.get_chemostat, bad, 0)
    must_raise("set_chemostat(%s)" % w_, system.set_chemostat, bad, 0, 1)
    must_raise("get_state_index(%s)" % w_, system.get_state_index, bad, 0)
    must_raise("compute_dspeciesdt(%s)" % w_, K.compute_dspeciesdt, system, bad, 0)
    must_raise("compute_diffusion_rates(%s)" % w_, K.compute_diffusion_rates, system, bad, 0, 1)
    must_raise("trajectory.get_trajectory(%s)" % w_, traj.get_trajectory, bad, 0)
    must_raise("trajectory.get_trajectory_point(%s)" % w_, traj.get_trajectory_point, bad, 0, 0)
    if bad is not None:
        must_raise("trajectory.get_state(%s)" % w_, traj.get_state, bad, 0)
    if [float(v) for v in system.state.value] != st0:
        raise Violation("a refused species still changed the state", key="species:changed")
    # unknown reaction for apply_reaction / compute_reaction_rates
    for badr in ("nope", 5, -1):
        must_raise("apply_reaction(%r)" % (badr,), system.apply_reaction, badr)
        must_raise("compute_reaction_rates(%r)" % (badr,), K.compute_reaction_rates, system, badr, 0)


# ---- coarse-graining maps ------------------------------------------------------------------------------------

@st.composite
def cg_case(draw):
    w, h, d = draw(st.integers(1, 4)), draw(st.integers(1, 3)), draw(st.integers(1, 2))
    n = w * h * d
    nenv = draw(st.integers(1, 3))
    env = [draw(st.integers(0, nenv - 1)) for _ in range(n)]
    # valid map by construction: groups inside one environment
    groups = {}
    m = []
    for i in range(n):
        key = (env[i], draw(st.integers(0, 1)))
        if draw(st.integers(0, 5)) == 0:
            m.append(-1)
            continue
        if key not in groups:
            groups[key] = len(groups)
        m.append(groups[key])
    if not groups:
        m[0] = 0
    return {"shape": [w, h, d], "env": env, "nenv": nenv, "map": m,
            "fault": draw(st.sampled_from(["length-short", "length-long", "below-minus-one", "gap", "mixed-env", "all-dropped", "non-int", "float-map"])),
            "pick": draw(st.integers(0, 1000))}


def strat_cg(ctx):
    return cg_case()


def check_cg(ctx, c):
    w, h, d = c["shape"]
    n = w * h * d
    m = list(c["map"])
    f = c["fault"]
    pick = c["pick"]
    kept = [i for i in range(n) if m[i] >= 0]
    if f == "length-short":
        bad = m[:-1]
        if not bad:
            ctx.skip("single-cell grid")
            return
    elif f == "length-long":
        bad = m + [0]
    elif f == "below-minus-one":
        bad = list(m)
        bad[pick % n] = -2 - pick % 3
    elif f == "gap":
        top = max(m)
        bad = [v + 1 if v == top and top >= 0 else v for v in m]
        if top == 0 and sum(1 for v in m if v == 0) == len(kept):
            bad = [v + 1 if v >= 0 else v for v in m]   # {1,...} without 0
    elif f == "mixed-env":
        other = [i for i in range(n) if c["env"][i] != c["env"][kept[0]]] if kept else []
        if not other:
            ctx.skip("single environment")
            return
        bad = list(m)
        bad[other[pick % len(other)]] = m[kept[0]]
    elif f == "all-dropped":
        bad = [-1] * n
    elif f == "non-int":
        bad = list(m)
        bad[pick % n] = [None, "0", 0.5, [0]][pick % 4]
    else:
        bad = [float(v) for v in m]
    ctx.note(c, True, ["cgmap:" + f])
    net = S.RDNetwork([S.Species("A", density=1.0)], [], ["e%d" % k for k in range(c["nenv"])])
    grid = S.RDGridSpace(w=w, h=h, d=d, cell_env=list(c["env"]))
    system = S.RDSystem(net, grid)
    sut_call("coarsegrain_system(valid map %s)" % m, coarsegrain_system, system, m)
    must_raise("coarsegrain_system(map %s) [%s]" % (bad, f), coarsegrain_system, system, bad)
    must_raise("coarsegrain_grid(map %s) [%s]" % (bad, f), coarsegrain_grid, grid, bad)
    must_raise("check_index_map_validity(map %s) [%s]" % (bad, f), check_index_map_validity, bad, grid)
    must_raise("simulate(cgmap=%s) [%s]" % (bad, f), S.simulate, system, [0, 0.001], cgmap=bad)


RULE = RULE + " " + ('Since seeded round 4 the alias-twice fault also comes as two NON-reference spellings of a field given together without the reference spelling (fields with >= 3 spellings).')

FACETS = [
    Facet("dict_faults", check_dict, strategy=strat_dict, examples=(3000, 60000), shards=(16, 16)),
    Facet("ctor_faults", check_ctor, strategy=strat_ctor, examples=(3000, 40000), shards=(4, 16)),
    Facet("positions", check_positions, enumerate=enum_positions, shards=(11, 11)),
    Facet("species", check_species, strategy=strat_species, examples=(600, 6000), shards=(2, 8)),
    Facet("cgmaps", check_cg, strategy=strat_cg, examples=(1500, 30000), shards=(4, 16)),
]
