"""C14 Initial-state processing yields a valid molecular state with the right totals."""
import math
from fractions import Fraction as F

from hypothesis import strategies as st

from vlib import child, gen, si
from vlib.ratelaw import Model
from vlib.runner import Facet, Violation, HarnessError
from vlib import sut  # noqa: F401

PROPERTY = "C14"
RULE = ("Hypothesis real-valued initial states (per entry: exact integers, fractional values, values "
        "below one molecule, values > 100 for the normal branch, zeros / empty cells; 1-4 species, 1-30 "
        "cells; grid or graph) x seeds x 4 processing modes x 3 engines; only set-up + first sample, run in "
        "a child process with a hang bound. Oracle: stochastic engines give non-negative integers; "
        "redist/auto: per-species total in {floor(T-eps), floor(T+eps)} with T the exact sum of the "
        "entries handed to the engine and eps = 1e-9 T, nothing placed in a cell whose real amount is 0; "
        "none (and auto for Euler): first sample equals the state bit for bit; same seed twice gives the "
        "same first sample; set-up returns within the hang bound (a time-out is re-run alone before it "
        "counts). Facet poisson: over N seeds each entry's sample mean lies within 7 sqrt(m/N) of its real "
        "amount m, zero stays zero, pooled dispersion and pooled correlation between entries are within 7 "
        "sigma; pairwise distinct means make a species/cell transposition visible. Non-trivial: >= 2 "
        "species and >= 2 cells with mostly distinct amounts (all distinct in the poisson facet).")
ASSUMPTIONS = ["hang bound 30 s per set-up (re-run alone with 90 s before reporting); set-ups take milliseconds",
               "statistical thresholds |z| < 7 (p < 3e-12 per test); seeds are generated values, so a given "
               "VERIF_SEED reproduces exactly"]
DEF_US = {"space": "µm", "time": "s", "quantity": "molecule"}
LABELS = ["A", "B", "C", "D2"]

_children = {}


def get_child():
    if "c" not in _children:
        _children["c"] = child.Child("plain")
    return _children["c"]


def setup(ctx):
    from vlib import build
    build.engine_path("plain")


def unit_level():
    return {"mode": "omit", "sys": dict(DEF_US)}


def qv(x):
    return {"si": gen.fs(x), "form": "bare", "sys": dict(DEF_US), "style": 0}


@st.composite
def state_case(draw, poisson=False):
    ns = draw(st.sampled_from([1, 2, 2, 3, 4]))
    space = draw(st.sampled_from(["grid", "grid", "graph"]))
    if space == "grid":
        w, h, d = draw(st.sampled_from([(1, 1, 1), (2, 1, 1), (3, 1, 1), (2, 2, 1), (3, 2, 1), (2, 2, 2), (5, 2, 1), (5, 3, 2), (4, 1, 1), (1, 3, 1), (1, 1, 2)]))
        n = w * h * d
        sp = {"type": "grid", "units": unit_level(), "w": w, "h": h, "d": d, "bc": {}, "cell_env": [0] * n,
              "cell_env_form": "list", "cell_vol": qv(F(1, 10 ** 18))}
    else:
        n = draw(st.integers(1, 8))
        sp = {"type": "graph", "units": unit_level(),
              "nodes": [{"units": unit_level(), "vol": qv(F(1, 10 ** 18)), "env": 0} for _ in range(n)],
              "edges": [{"units": unit_level(), "i": i, "j": i + 1, "sfc": qv(F(1, 10 ** 12)), "dst": qv(F(1, 10 ** 6))} for i in range(n - 1)]}
    vals = []
    regime = draw(st.sampled_from(["sub-molecule", "small", "mixed", "mixed", "large", "integers"]))
    for s in range(ns):
        for i in range(n):
            r = draw(st.integers(0, 9))
            if r == 0:
                v = F(0)
            elif poisson:
                # pairwise distinct means, moderate size
                v = F(draw(st.integers(1, 400)), 8) + F(s * n + i, 1024)
            elif regime == "sub-molecule":
                v = F(draw(st.integers(1, 40)), 128)
            elif regime == "small":
                v = F(draw(st.integers(1, 640)), 64)
            elif regime == "large":
                v = F(draw(st.integers(6400, 64000)), 64)
            elif regime == "integers":
                v = F(draw(st.integers(0, 300)))
            else:
                v = draw(st.sampled_from([F(draw(st.integers(1, 64)), 128), F(draw(st.integers(1, 6400)), 64),
                                          F(draw(st.integers(100, 500))), F(draw(st.integers(12800, 64000)), 128)]))
            vals.append(gen.fs(v))
    species = [{"label": LABELS[s], "units": unit_level(), "D": qv(F(1, 10 ** 12)), "density": qv(0), "chstt": False} for s in range(ns)]
    reactions = []
    if ns >= 2:
        reactions.append({"sub": {"A": 1}, "prod": {"B": 1}, "units": unit_level(), "kf": qv(1), "kr": qv(0), "label": None, "eq_form": "str"})
    spec = {"env": [""], "sys_units": unit_level(), "net_units": unit_level(), "space": sp, "species": species,
            "reactions": reactions, "state": {"values": vals, "units": draw(st.sampled_from(["molecule", "molecule", "bare", "mol", "nmol"]))},
            "chemostats": None}
    engine = draw(st.sampled_from(["gillespie", "tauleap", "euler"]))
    mode = "Poisson" if poisson else draw(st.sampled_from(["auto", "redist", "none", "auto", "redist"]))
    out_q = draw(st.sampled_from(["molecule", "molecule", "nmol", "mol"]))
    if engine == "euler" and mode in ("redist", "Poisson"):
        out_q = "molecule"   # the deterministic engine works in the script's units: integers only mean molecules there
    return {"sys": spec, "engine": engine, "mode": mode, "seed": draw(st.integers(0, 2 ** 32 - 1)), "out_q": out_q,
            "regime": "poisson" if poisson else regime,
            # how the script comes to be: constructor (mode spelled out / left to the default) or dictionary reader (ditto)
            "script_route": draw(st.sampled_from(["ctor", "ctor-default", "dict", "dict-default"]))}


def script_of(c, seed=None):
    return {"sys": c["sys"], "route": "ctor", "units": {"space": "µm", "time": "s", "quantity": c["out_q"]},
            "t_sample": [0, 1.0], "time_step": 1e-3, "policy": "on_t_sample", "seed": c["seed"] if seed is None else seed,
            "mode": c["mode"], "script_route": c.get("script_route", "ctor")}


def engine_input(c):
    """the doubles handed to the engine (molecules for stochastic engines, output units for Euler)"""
    spec = c["sys"]
    stt = spec["state"]
    qsym = "molecule" if stt["units"] == "bare" else stt["units"]
    stored = [float(gen.pf(v) / si.QUANTITY[qsym]) for v in stt["values"]]       # what the system stores
    target = "molecule" if c["engine"] != "euler" else c["out_q"]
    if qsym == target:
        return stored, True
    f = float(si.QUANTITY[qsym]) / float(si.QUANTITY[target])
    return [v * f for v in stored], False


def run_job(job, what):
    ch = get_child()
    st_, rep = ch.run(job, timeout=30.0)
    if st_ == "timeout":
        st2, rep2 = child.one_shot(job, "plain", timeout=90.0)
        if st2 == "timeout":
            raise Violation("%s did not return within 90 s (hang)" % what, key="hang")
        st_, rep = st2, rep2
    if st_ == "died":
        raise Violation("%s: the process died (signal %s) %s" % (what, rep.get("signal"), rep.get("stderr", "")[-300:]), key="crash")
    if rep.get("error"):
        raise HarnessError("worker error: " + rep["error"])
    for r in rep["results"]:
        if "exc" in r:
            raise Violation("%s raised %s" % (what, r["exc"]), key="exception")
    return rep["results"]


def classes_of(c, vals_exact, ns, n):
    cl = ["engine:" + c["engine"], "mode:" + c["mode"], "regime:" + c["regime"], "space:" + c["sys"]["space"]["type"], "script:" + c.get("script_route", "ctor")]
    for s in range(ns):
        T = sum(vals_exact[s * n:(s + 1) * n])
        if 0 < T < 1:
            cl.append("total<1")
        elif T != int(T):
            cl.append("fractional-total")
    if any(v >= 100 for v in vals_exact):
        cl.append("entry>=100")
    if any(v == 0 for v in vals_exact):
        cl.append("empty-entry")
    return sorted(set(cl))


def strat_state(ctx):
    return state_case(False)


def check_state(ctx, c):
    spec = c["sys"]
    model = Model(spec)
    ns, n = model.ns, model.n
    given, exact_path = engine_input(c)
    vals_exact = [F(v) for v in given]
    distinct = 2 * len(set(given)) > len(given)
    ctx.note(c, ns >= 2 and n >= 2 and distinct, classes_of(c, vals_exact, ns, n))
    stochastic = c["engine"] != "euler"
    job = {"scripts": [script_of(c)], "calls": [["new", "E", c["engine"]], ["sample0", "E", 0, [c["seed"], c["seed"]]]]}
    res = run_job(job, "set-up of %s with init_state_processing=%s, seed %d, state %s" % (c["engine"], c["mode"], c["seed"], given))
    first, second = res[1]["r"]
    if first != second:
        raise Violation("same seed %d, two set-ups, different first samples: %s vs %s" % (c["seed"], first, second), key="reproducible")
    if len(first) != ns * n:
        raise Violation("first sample has %d entries, expected %d" % (len(first), ns * n), key="shape")
    out_scale = float(si.QUANTITY[c["out_q"]])
    x0 = [v * out_scale for v in first]     # molecules
    passthrough = c["mode"] == "none" or (c["mode"] == "auto" and not stochastic)
    if passthrough:
        for t in range(ns * n):
            want = float(vals_exact[t]) * (1.0 if stochastic else out_scale)
            if stochastic and c["out_q"] == "molecule" and exact_path:
                if first[t] != given[t]:
                    raise Violation("mode %s: entry %d = %r, state handed over %r (not bit-identical)" % (c["mode"], t, first[t], given[t]), key="none:changed")
            elif abs(x0[t] - want) > 1e-12 * abs(want):
                raise Violation("mode %s: entry %d = %r molecules, state %r" % (c["mode"], t, x0[t], want), key="none:changed")
        return
    # redistribution (stochastic engines; also 'redist' requested for Euler)
    ints = []
    for t in range(ns * n):
        v = x0[t]
        r = round(v)
        if abs(v - r) > 1e-9 * max(1.0, abs(v)) or r < 0:
            raise Violation("mode %s / %s: entry %d of the first sample is %r molecules (not a non-negative integer); state %s" % (
                c["mode"], c["engine"], t, v, given), key="redist:integer")
        ints.append(int(r))
    for s in range(ns):
        T = sum(vals_exact[s * n:(s + 1) * n])
        eps = F(1, 10 ** 9) * T
        allowed = {math.floor(T - eps), math.floor(T + eps)}
        tot = sum(ints[s * n:(s + 1) * n])
        if tot not in allowed:
            raise Violation("mode %s / %s seed %d: species %d holds %d molecules in total, real-valued total %r (floor %d); state %s -> %s" % (
                c["mode"], c["engine"], c["seed"], s, tot, float(T), math.floor(T), given[s * n:(s + 1) * n], ints[s * n:(s + 1) * n]),
                key="redist:total")
        for i in range(n):
            if vals_exact[s * n + i] == 0 and ints[s * n + i] != 0:
                raise Violation("mode %s: %d molecule(s) of species %d placed in cell %d whose real amount is 0" % (c["mode"], ints[s * n + i], s, i),
                                key="redist:zero-cell")


# ---- Poisson mode statistics -----------------------------------------------------------------------------

@st.composite
def large_case(draw):
    """Poisson mode above the Poisson/normal switch of the redistribution code (100 molecules): many entries with means in
    100..160, so that the POOLED sample mean over all entries and seeds resolves a bias of a fraction of a molecule."""
    c = draw(state_case(True))
    sp = c["sys"]["space"]
    n = gen.space_size(sp)
    ns = len(c["sys"]["species"])
    vals = [gen.fs(F(100) + F(draw(st.integers(0, 480)), 8) + F(k, 1024)) for k in range(ns * n)]
    c["sys"] = dict(c["sys"], state={"values": vals, "units": c["sys"]["state"]["units"]})
    return c


def strat_poisson_large(ctx):
    return st.fixed_dictionaries({"case": large_case().filter(lambda c: len(c["sys"]["state"]["values"]) >= 8), "seed0": st.integers(0, 2 ** 31)})


def check_poisson_large(ctx, cc):
    c = cc["case"]
    K = len(c["sys"]["state"]["values"])
    N = max(200, (60000 if ctx.tier == "quick" else 120000) // K)
    given, _ = engine_input(c)
    means = [float(v) if c["engine"] != "euler" else float(v) * float(si.QUANTITY[c["out_q"]]) for v in given]
    ctx.note(cc, True, ["poisson-large", "engine:" + c["engine"], "space:" + c["sys"]["space"]["type"]])
    seeds = [(cc["seed0"] + 7919 * k) % (2 ** 32) for k in range(N)]
    scale = float(si.QUANTITY[c["out_q"]])
    tot = 0.0
    for lo in range(0, N, 500):       # small jobs: the time-out of a job is a hang detector, not a budget
        job = {"scripts": [script_of(c)], "calls": [["new", "E", c["engine"]], ["sample0", "E", 0, seeds[lo:lo + 500]]]}
        res = run_job(job, "Poisson-mode set-up of %s (%d seeds)" % (c["engine"], len(seeds[lo:lo + 500])))
        for smp in res[1]["r"]:
            for t in range(K):
                tot += round(smp[t] * scale)
    want = N * sum(means)
    z = (tot - want) / math.sqrt(want)
    ctx.count("poisson-large:draws", N * K)
    if abs(z) > 7:
        raise Violation("Poisson mode (%s, %s), %d entries with real amounts in 100..160, %d seeds: the pooled sample mean is off by %.3f molecule per "
                        "entry (z = %.1f): entries are not drawn with the real-valued amount as mean" % (
                            c["engine"], c["sys"]["space"]["type"], K, N, (tot - want) / (N * K), z), key="poisson:mean-large")


def strat_poisson(ctx):
    return st.fixed_dictionaries({"case": state_case(True), "seed0": st.integers(0, 2 ** 31)})


def check_poisson(ctx, cc):
    c = cc["case"]
    N = 200 if ctx.tier == "quick" else 2000
    spec = c["sys"]
    model = Model(spec)
    ns, n = model.ns, model.n
    given, _ = engine_input(c)
    means = [float(v) if c["engine"] != "euler" else float(v) * float(si.QUANTITY[c["out_q"]]) for v in given]
    distinct = len(set(means)) == len(means)
    ctx.note(cc, ns >= 2 and n >= 2 and distinct, ["poisson", "engine:" + c["engine"], "space:" + spec["space"]["type"]] +
             (["entry>=100"] if any(m >= 100 for m in means) else []) + (["empty-entry"] if any(m == 0 for m in means) else []))
    seeds = [(cc["seed0"] + 7919 * k) % (2 ** 32) for k in range(N)]
    job = {"scripts": [script_of(c)], "calls": [["new", "E", c["engine"]], ["sample0", "E", 0, seeds]]}
    res = run_job(job, "Poisson-mode set-up of %s (%d seeds)" % (c["engine"], N))
    samples = res[1]["r"]
    scale = float(si.QUANTITY[c["out_q"]])
    K = ns * n
    sums = [0.0] * K
    sq = [0.0] * K
    for smp in samples:
        for t in range(K):
            v = smp[t] * scale
            r = round(v)
            if abs(v - r) > 1e-9 * max(1.0, abs(v)) or r < 0:
                raise Violation("Poisson mode: entry %d = %r molecules (not a non-negative integer)" % (t, v), key="poisson:integer")
            sums[t] += r
            sq[t] += r * r
    disp_num = disp_den = 0.0
    for t in range(K):
        m = means[t]
        mean = sums[t] / N
        if m == 0:
            if sums[t] != 0:
                raise Violation("Poisson mode: entry %d has real amount 0 but received molecules" % t, key="poisson:zero")
            continue
        z = (mean - m) / math.sqrt(m / N)
        if abs(z) > 7:
            raise Violation("Poisson mode (%s, %s): entry %d (species %d, cell %d) has sample mean %r over %d seeds, real amount %r (z = %.1f); means %s" % (
                c["engine"], spec["space"]["type"], t, t // n, t % n, mean, N, m, z, means), key="poisson:mean")
        # dispersion: sum (x - m)^2 has mean N m, variance N (m + 2 m^2) for a Poisson variable
        s2 = sq[t] - 2 * m * sums[t] + N * m * m
        disp_num += s2 - N * m
        disp_den += N * (m + 2 * m * m)
    if disp_den > 0:
        z = disp_num / math.sqrt(disp_den)
        if abs(z) > 7:
            raise Violation("Poisson mode: pooled dispersion z = %.1f (variance does not match the mean)" % z, key="poisson:dispersion")
    # independence: pooled correlation of neighbouring entries
    idx = [t for t in range(K) if means[t] > 0]
    if len(idx) >= 2:
        num = 0.0
        cnt = 0
        for a, b in zip(idx, idx[1:]):
            ma, mb = means[a], means[b]
            cov = sum((smp[a] * scale - ma) * (smp[b] * scale - mb) for smp in samples) / N
            num += cov / math.sqrt(ma * mb)
            cnt += 1
        z = num / math.sqrt(cnt / N)
        if abs(z) > 7:
            raise Violation("Poisson mode: entries are correlated (pooled z = %.1f)" % z, key="poisson:independence")


RULE = RULE + " " + ("Since seeded round 5 the script is built through four routes (constructor / dictionary reader, mode spelled out / left to the default when it is 'auto'); facet poisson_large pools >= 60000 Poisson-mode draws (120000 in the thorough tier) over entries with real amounts in 100..160 and tests the pooled mean (a bias of half a molecule is ~10 sigma).")

FACETS = [
    Facet("state", check_state, strategy=strat_state, examples=(1600, 40000), shards=(16, 16), setup=setup, native=True, shrink=True),
    Facet("poisson", check_poisson, strategy=strat_poisson, examples=(96, 1500), shards=(8, 16), setup=setup, native=True),
    Facet("poisson_large", check_poisson_large, strategy=strat_poisson_large, examples=(16, 32), shards=(8, 16), setup=setup, native=True, shrink=False),
]
