"""C02 Every engine conserves every conservation law of the network."""
import math
from fractions import Fraction as F

from hypothesis import strategies as st

from vlib import gen, si, sim
from vlib import build_model as B
from vlib.ratelaw import Model
from vlib.runner import Facet, Violation, sut_call
from vlib import sut  # noqa: F401
import strengths as S

PROPERTY = "C02"
RULE = ("Hypothesis systems whose network is mass-balanced by construction (integer masses per species, "
        "every reaction side drawn with equal total mass, orders 1-3, repeated species; plus inert and "
        "diffusing-only species), on grids (all reflecting/periodic mixes incl. periodic axes of length 1 "
        "and 2, zero-diffusivity wall environments) and graphs (heterogeneous volumes, multigraphs), with "
        "chemostats on a random subset of entries, run with the three engines (sampling on every "
        "iteration, 20-400 iterations). Oracle: an integer basis of the left null space of the "
        "stoichiometric matrix restricted to species without any chemostated entry (own Fraction Gaussian "
        "elimination); for every basis vector c, sum_i c . x[:, i] at every sample equals its value at "
        "sample 0: exactly for tau-leap and Gillespie (integers in doubles), within 1e-9 x sum |c||x| for "
        "Euler. Facet laws_around_chemostat: the same with a chemostated species placed between (in species order) two reacting unflagged species. Facet diffusion: reactions removed, every unflagged species' total is constant. "
        "Non-trivial: a law involving >= 2 species (or a diffusing species with a non-zero interface), the "
        "state changed during the run, >= 10 samples.")
ASSUMPTIONS = ["left null space computed in vlib-free code of this file; reference diffusivities from vlib/ratelaw.py",
               "a species with any chemostated entry is excluded from the laws (the statement's restriction)"]


def left_null_space(rows):
    """rows: list of species rows (each a list over reactions). -> integer basis vectors c with c . N = 0"""
    ns = len(rows)
    if ns == 0:
        return []
    nr = len(rows[0]) if rows[0] else 0
    # solve N^T c = 0: matrix A (nr x ns)
    A = [[F(rows[s][r]) for s in range(ns)] for r in range(nr)]
    piv_cols = []
    r0 = 0
    for col in range(ns):
        piv = None
        for r in range(r0, nr):
            if A[r][col] != 0:
                piv = r
                break
        if piv is None:
            continue
        A[r0], A[piv] = A[piv], A[r0]
        pv = A[r0][col]
        A[r0] = [v / pv for v in A[r0]]
        for r in range(nr):
            if r != r0 and A[r][col] != 0:
                f = A[r][col]
                A[r] = [a - f * b for a, b in zip(A[r], A[r0])]
        piv_cols.append(col)
        r0 += 1
        if r0 == nr:
            break
    free = [c for c in range(ns) if c not in piv_cols]
    basis = []
    for fc in free:
        v = [F(0)] * ns
        v[fc] = F(1)
        for i, pc in enumerate(piv_cols):
            v[pc] = -A[i][fc]
        den = 1
        for x in v:
            den = den * x.denominator // math.gcd(den, x.denominator)
        iv = [int(x * den) for x in v]
        g = 0
        for x in iv:
            g = math.gcd(g, abs(x))
        basis.append([x // g for x in iv] if g else iv)
    return basis


@st.composite
def balanced_reaction(draw, labels, masses):
    order = draw(st.integers(1, 3))
    sub = {}
    for _ in range(order):
        s = draw(st.sampled_from(labels))
        sub[s] = sub.get(s, 0) + 1
    M = sum(masses[s] * c for s, c in sub.items())
    prod = {}
    rest = M
    guard = 0
    while rest > 0 and guard < 12:
        guard += 1
        cands = [s for s in labels if masses[s] <= rest]
        s = draw(st.sampled_from(cands))
        prod[s] = prod.get(s, 0) + 1
        rest -= masses[s]
    if sum(prod.values()) > 4 or prod == sub:
        # fall back to an isomerisation between two species of equal mass, or a trivial identity
        prod = dict(sub)
        same = [s for s in labels if any(masses[s] == masses[t] and s != t for t in sub)]
        if same:
            t = list(sub)[0]
            alt = [s for s in labels if masses[s] == masses[t] and s != t]
            if alt:
                prod = dict(sub)
                prod[t] -= 1
                if prod[t] == 0:
                    del prod[t]
                a = draw(st.sampled_from(alt))
                prod[a] = prod.get(a, 0) + 1
    return sub, prod


# units system of the script (None: the default one). The laws are stated on amounts: they hold in whatever unit the
# engine is asked to work and report in.
script_units = st.one_of(st.none(), st.none(), st.fixed_dictionaries({
    "space": st.sampled_from(si.SPACE_SYMS), "time": st.sampled_from(si.TIME_SYMS), "quantity": st.sampled_from(si.QUANTITY_SYMS)}))


@st.composite
def case(draw, pure_diffusion=False, around_chemostat=False):
    base = draw(gen.system_spec(variety="mild", max_species=4, max_reactions=0, max_cells=12, max_axis=4, min_species=2,
                                chemostats="none", state="explicit", count_exp=(0, 2), rate_exp=(-1, 0), simple_graph=False))
    labels = [s["label"] for s in base["species"]]
    masses = {}
    for i, lb in enumerate(labels):
        masses[lb] = 1 if i == 0 else draw(st.integers(1, 3))
    spec = dict(base)
    reactions = []
    if not pure_diffusion:
        active = labels[:max(2, len(labels) - draw(st.integers(0, 1)))]   # possibly one inert species
        n_r = draw(st.integers(1, 3))
        vref = F(10) ** -18
        for r in range(n_r):
            sub, prod = draw(balanced_reaction(active, masses))
            nf, nb = sum(sub.values()), sum(prod.values())

            def kq(order):
                c = draw(gen.mantissa()) * F(10) ** (draw(st.integers(-1, 0)) - max(0, order - 1) * 2)
                # volume scale of this system: use the first cell volume as reference
                sp_ = base["space"]
                v0 = gen.pf(sp_["cell_vol"]["si"]) if sp_["type"] == "grid" else gen.pf(sp_["nodes"][0]["vol"]["si"])
                return {"si": gen.fs(c * v0 ** (order - 1)), "form": "bare", "sys": dict(gen.DEFAULT), "style": 0}
            reactions.append({"sub": sub, "prod": prod, "units": {"mode": "omit", "sys": dict(base["net_units"]["sys"])},
                              "kf": kq(nf), "kr": kq(nb) if draw(st.booleans()) else {"si": "0/1", "form": "bare", "sys": dict(gen.DEFAULT), "style": 0},
                              "label": None, "eq_form": "str"})
    if around_chemostat and len(labels) >= 3:
        # reactions between the species on both sides (in species order) of a chemostated one
        lo, hi = labels[0], labels[-1]
        masses[hi] = masses[lo]
        forms = [({lo: 1}, {hi: 1}), ({lo: 2}, {hi: 2}), ({lo: 1, hi: 1}, {hi: 2}), ({lo: 2}, {lo: 1, hi: 1})]
        for r, (sub, prod) in zip(reactions, draw(st.permutations(forms))):
            old_f, old_b = sum(r["sub"].values()), sum(r["prod"].values())
            sp_ = base["space"]
            v0 = gen.pf(sp_["cell_vol"]["si"]) if sp_["type"] == "grid" else gen.pf(sp_["nodes"][0]["vol"]["si"])
            for key, old, new in (("kf", old_f, sum(sub.values())), ("kr", old_b, sum(prod.values()))):
                q_ = r[key]
                c_ = gen.pf(q_["si"]) * v0 ** (1 - old) * F(10) ** (2 * max(0, old - 1) - 2 * max(0, new - 1))
                r[key] = dict(q_, si=gen.fs(c_ * v0 ** (new - 1)))
            r["sub"], r["prod"] = dict(sub), dict(prod)
    spec["reactions"] = reactions
    n_cells = gen.space_size(spec["space"])
    flags = None
    if around_chemostat and len(labels) >= 3:
        which = draw(st.integers(1, len(labels) - 2))
        flags = [0] * (len(labels) * n_cells)
        for i in range(n_cells):
            if draw(st.integers(0, 3)):
                flags[which * n_cells + i] = 1
        spec["chemostats"] = flags
        return {"sys": spec, "masses": masses, "engine": draw(st.sampled_from(["euler", "tauleap", "gillespie", "tauleap"])),
                "steps": draw(st.integers(20, 400)), "seed": draw(st.integers(0, 2 ** 32 - 1)),
                "route": draw(st.sampled_from(["ctor", "dict"])), "mode": draw(st.sampled_from(["auto", "none"])),
                "units": draw(script_units), "reuse": draw(st.integers(0, 3)) == 0}
    if draw(st.integers(0, 2)) == 0:
        # prefer a species in the middle of the species order: an engine that mishandles the flag of species k
        # while updating the species around it only shows when k sits between two reacting, unflagged species
        which = draw(st.integers(1, len(labels) - 2)) if len(labels) >= 3 and draw(st.integers(0, 3)) else draw(st.integers(0, len(labels) - 1))
        flags = [0] * (len(labels) * n_cells)
        for i in range(n_cells):
            if draw(st.booleans()):
                flags[which * n_cells + i] = 1
    spec["chemostats"] = flags
    return {"sys": spec, "masses": masses, "engine": draw(st.sampled_from(["euler", "tauleap", "gillespie"])),
            "steps": draw(st.integers(20, 400)), "seed": draw(st.integers(0, 2 ** 32 - 1)),
            "route": draw(st.sampled_from(["ctor", "dict"])), "mode": draw(st.sampled_from(["auto", "none"])),
            "units": draw(script_units), "reuse": draw(st.integers(0, 3)) == 0}


def stable_dt(x, sc):
    best = None
    for xv, s in zip(x, sc):
        if s > 0:
            r = max(abs(xv), 1.0) / s
            best = r if best is None else min(best, r)
    if best is None:
        best = 1.0
    return 10.0 ** math.floor(math.log10(best * 0.02))


def run(ctx, c, pure_diffusion):
    spec = c["sys"]
    kind = c["engine"]
    if kind != "euler" and c["mode"] == "none":
        spec = dict(spec)
        stt = dict(spec["state"])
        stt["values"] = [gen.fs(round(F(v))) for v in stt["values"]]
        stt["units"] = "molecule"   # whole molecules must reach the engine as exact integers
        spec["state"] = stt
    model = Model(spec)
    ns, n = model.ns, model.n
    flags = model.flags()
    flagged_species = {s for s in range(ns) if any(flags[s * n:(s + 1) * n])}
    free = [s for s in range(ns) if s not in flagged_species]
    rows = []
    for s in free:
        lb = model.labels[s]
        rows.append([r["prod"].get(lb, 0) - r["sub"].get(lb, 0) for r in spec["reactions"]])
    basis = left_null_space(rows) if spec["reactions"] else [[1 if k == j else 0 for k in range(len(free))] for j in range(len(free))]
    laws = []
    for b in basis:
        cvec = [0] * ns
        for k, s in enumerate(free):
            cvec[s] = b[k]
        laws.append(cvec)
    x = model.state()
    dx, sc = model.derivative(x, mask=flags)
    diffusing = any(k > 0 for (i, j, _, _), row in zip(model.slots, model.kslot) if i != j for k in row)
    system = sut_call("build_system", B.build_system, spec, c["route"])
    from vlib.ratelaw import tame_dt
    dt = tame_dt(model, flags) * c.get("coarse", 1.0)
    kw = {}
    if c.get("units"):
        kw["units_system"] = B.US(c["units"])
    script = sut_call("RDScript", S.RDScript, system, [0], time_step="%r s" % dt, t_max="%r s" % (dt * 10 ** 7),
                      sampling_policy="on_iteration", rng_seed=c["seed"], init_state_processing=c["mode"], **kw)
    eng = None
    if c.get("reuse"):
        # the engine object has been used before, for another network on the same species and space: a first-order
        # sink of the first species (any trace of it in the second run breaks that species' laws)
        prev = dict(spec)
        sp_ = spec["space"]
        prev["reactions"] = [{"sub": {model.labels[0]: 1}, "prod": {}, "units": {"mode": "omit", "sys": dict(spec["net_units"]["sys"])},
                              "kf": {"si": gen.fs(F(1, 100) / F(dt).limit_denominator(10 ** 30)), "form": "bare", "sys": dict(gen.DEFAULT), "style": 0},
                              "kr": {"si": "0/1", "form": "bare", "sys": dict(gen.DEFAULT), "style": 0}, "label": None, "eq_form": "str"}]
        prev_system = sut_call("build_system (previous run)", B.build_system, prev, c["route"])
        prev_script = sut_call("RDScript", S.RDScript, prev_system, [0], time_step="%r s" % dt, t_max="%r s" % (dt * 10 ** 7),
                               sampling_policy="on_iteration", rng_seed=c["seed"], init_state_processing=c["mode"], **kw)
        eng = sim.engine(kind)
        sut_call("engine run (previous network)", sim.drive, prev_script, kind, 3, eng=eng)
        ctx.count("engine-object-reused")
    traj, done, _ = sut_call("engine run", sim.drive, script, kind, c["steps"], eng=eng)
    molecules = not c.get("units") or c["units"]["quantity"] == "molecule"
    d = si.si_floats(traj.data) if (kind == "euler" or not molecules) else [float(v) for v in traj.data.value]
    m = ns * n
    nsamp = len(d) // m
    changed = nsamp >= 2 and d[:m] != d[(nsamp - 1) * m:nsamp * m]
    multi = any(sum(1 for v in cv if v != 0) >= 2 for cv in laws)
    overshoot = any(v < 0 for v in d)
    ctx.note(c, (multi or (pure_diffusion and diffusing)) and changed and (nsamp >= 10 or (c.get("coarse") and overshoot)) and bool(laws),
             ["engine:" + kind, "space:" + spec["space"]["type"], "laws:%d" % min(len(laws), 4)] +
             (["multi-species-law"] if multi else []) + (["chemostats"] if flagged_species else []) +
             (["diffusing"] if diffusing else []) + (["changed"] if changed else ["static"]) +
             (["coarse-step:overshoot-below-zero" if overshoot else "coarse-step:no-overshoot"] if c.get("coarse") else []))
    if len(d) != nsamp * m or nsamp < 1:
        raise Violation("trajectory has %d values for state size %d" % (len(d), m), key="shape")
    for cv in laws:
        tot0 = None
        for k in range(nsamp):
            tot = 0.0
            mag = 0.0
            for s in range(ns):
                if cv[s]:
                    ssum = math.fsum(d[k * m + s * n:k * m + (s + 1) * n])
                    tot += cv[s] * ssum
                    mag += abs(cv[s]) * math.fsum(abs(v) for v in d[k * m + s * n:k * m + (s + 1) * n])
            if tot0 is None:
                tot0 = tot
                continue
            if kind == "euler" or not molecules:      # amounts reported in another unit: converted floats
                ok = abs(tot - tot0) <= 1e-9 * mag + 1e-300
            else:
                ok = tot == tot0
            if not ok:
                raise Violation("%s on a %s: conserved combination %s (species %s) is %r at sample 0 and %r at sample %d" % (
                    kind, spec["space"]["type"], cv, model.labels, tot0, tot, k), key="conservation:" + ("diffusion" if pure_diffusion else "reaction"))
    ctx.count("samples_checked", nsamp)


def check_laws(ctx, c):
    run(ctx, c, False)


def check_diffusion(ctx, c):
    run(ctx, c, True)


# ---- coarse time steps (deterministic engine) -----------------------------------------------------------------
# The property quantifies over all time steps. An explicit Euler step that is far too coarse overshoots (amounts go
# negative, then grow) but it is still linear in the fluxes, so every conservation law holds to rounding relative to the
# magnitudes involved. Few steps only: the run must not reach overflow.

@st.composite
def coarse_case(draw):
    c = draw(case(False)) if draw(st.booleans()) else draw(case(True))
    c["engine"] = "euler"
    c["steps"] = draw(st.integers(1, 3))
    c["coarse"] = draw(st.sampled_from([300.0, 3000.0, 3e4, 3e5]))
    c["reuse"] = False
    return c


def strat_coarse(ctx):
    return coarse_case()


def check_coarse(ctx, c):
    run(ctx, c, not c["sys"]["reactions"])


def strat_laws(ctx):
    return case(False)


def strat_around(ctx):
    return case(False, True)


def strat_diffusion(ctx):
    return case(True)


RULE = RULE + " " + ('Since seeded round 4 one third of the runs use a drawn units system for the script (11 space x 10 time x 10 amount units; totals are then compared to 1e-9 x sum of magnitudes because reported amounts are converted floats), and one run in four re-uses an engine object that has just simulated another network on the same species and space (a first-order sink of the first species) before the measured run.')

RULE = RULE + " " + ('Since seeded round 5 facet coarse_steps: 1-3 explicit Euler steps that are 300 .. 3e5 times coarser than the tame step (amounts overshoot below zero): the step is linear in the fluxes, so every law still holds to 1e-9 x sum of magnitudes (the property quantifies over all time steps).')

FACETS = [
    Facet("laws", check_laws, strategy=strat_laws, examples=(1800, 40000), shards=(12, 16), setup=sim.setup_plain),
    Facet("laws_around_chemostat", check_laws, strategy=strat_around, examples=(900, 16000), shards=(8, 16), setup=sim.setup_plain),
    Facet("coarse_steps", check_coarse, strategy=strat_coarse, examples=(400, 8000), shards=(4, 16), setup=sim.setup_plain),
    Facet("diffusion", check_diffusion, strategy=strat_diffusion, examples=(500, 15000), shards=(4, 16), setup=sim.setup_plain),
]
