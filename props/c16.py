"""C16 Coarse-graining conserves matter and geometry; un-coarse-graining inverts it."""
import math
from fractions import Fraction as F

from hypothesis import strategies as st

from vlib import gen, si, sim
from vlib import build_model as B
from vlib.ratelaw import Model
from vlib.runner import Facet, Violation, sut_call
from vlib import sut  # noqa: F401
import strengths as S
from strengths.coarsegrain import coarsegrain_system, uncoarsegrain_trajectory

PROPERTY = "C16"
RULE = ("Hypothesis systems on reflecting grids (1-D, 2-D, 3-D up to 5x5x3, environment maps, explicit or "
        "default states, chemostat maps, a unit system per level) with a VALID index map built by "
        "construction (each environment's cells split into 1-3 groups, contiguous or not; a random subset "
        "of cells dropped, possibly from several environments; groups relabelled 0..max in random order; "
        "Python ints). Oracle = brute-force aggregation of the fine grid: per group volume, environment, "
        "per-species amount, flag = OR; edges iff some face-adjacent member pair, surface = faces x "
        "V^(2/3), distance = |centroid difference|, no self-loop, no duplicate; totals conserved. Facet "
        "inverse: uncoarsegrain_trajectory spreads value/len(group), dropped cells 0, times preserved, "
        "cgmap recorded. Facet simulate: identity map reproduces the plain Euler run; sample 0 of "
        "simulate(cgmap=m) equals aggregation spread back. Non-trivial: >= 2 groups with >= 2 members, a "
        "non-contiguous group, >= 1 dropped cell.")
ASSUMPTIONS = ["reflecting boundary conditions (documented precondition of coarsegrain_grid)",
               "index maps are lists of Python int"]
RTOL = 1e-12


@st.composite
def cg_case(draw, max_cells=45, with_sim=False):
    spec = draw(gen.system_spec(variety="mild", space_kind="grid", periodic=False, max_cells=max_cells, max_axis=5,
                                max_species=3, max_reactions=2 if with_sim else 0, max_order=2, chemostats="mixed",
                                count_exp=(0, 2)))
    sp = spec["space"]
    n = sp["w"] * sp["h"] * sp["d"]
    env = sp["cell_env"]
    raw = [None] * n
    for e in sorted(set(env)):
        cells = [i for i in range(n) if env[i] == e]
        k = draw(st.integers(1, min(3, len(cells))))
        for i in cells:
            raw[i] = (e, draw(st.integers(0, k - 1)))
    for i in range(n):
        if draw(st.integers(0, 4)) == 0:
            raw[i] = None
    if all(r is None for r in raw):
        raw[0] = (env[0], 0)
    keys = sorted({r for r in raw if r is not None})
    order = draw(st.permutations(keys))
    label = {k: idx for idx, k in enumerate(order)}
    m = [(-1 if r is None else label[r]) for r in raw]
    return {"sys": spec, "map": m, "route": draw(st.sampled_from(["ctor", "dict"]))}


def neighbours_faces(w, h, d):
    """list of face-adjacent cell pairs (i<j) of a reflecting grid"""
    out = []
    for z in range(d):
        for y in range(h):
            for x in range(w):
                i = x + y * w + z * w * h
                if x + 1 < w:
                    out.append((i, i + 1))
                if y + 1 < h:
                    out.append((i, i + w))
                if z + 1 < d:
                    out.append((i, i + w * h))
    return out


def contiguous(members, w, h, d):
    mem = set(members)
    start = next(iter(mem))
    seen = {start}
    stack = [start]
    while stack:
        i = stack.pop()
        x, y, z = i % w, (i // w) % h, i // (w * h)
        for dx, dy, dz in ((1, 0, 0), (-1, 0, 0), (0, 1, 0), (0, -1, 0), (0, 0, 1), (0, 0, -1)):
            xx, yy, zz = x + dx, y + dy, z + dz
            if 0 <= xx < w and 0 <= yy < h and 0 <= zz < d:
                j = xx + yy * w + zz * w * h
                if j in mem and j not in seen:
                    seen.add(j)
                    stack.append(j)
    return len(seen) == len(mem)


def analyse(c):
    spec = c["sys"]
    sp = spec["space"]
    w, h, d = sp["w"], sp["h"], sp["d"]
    m = c["map"]
    groups = {}
    for i, g in enumerate(m):
        if g >= 0:
            groups.setdefault(g, []).append(i)
    cl = ["dims:%d" % sum(1 for v in (w, h, d) if v > 1)]
    big = sum(1 for mem in groups.values() if len(mem) >= 2)
    noncontig = any(not contiguous(mem, w, h, d) for mem in groups.values())
    dropped = [i for i, g in enumerate(m) if g < 0]
    if noncontig:
        cl.append("non-contiguous-group")
    if dropped:
        cl.append("dropped-cells")
        if len({sp["cell_env"][i] for i in dropped}) >= 2:
            cl.append("dropped-from->=2-environments")
    if any(len(mem) == 1 for mem in groups.values()):
        cl.append("single-cell-group")
    nt = big >= 2 and noncontig and bool(dropped)
    return groups, cl, nt


def check_cgsystem(c, system, cgs, model, groups):
    spec = c["sys"]
    sp = spec["space"]
    w, h, d = sp["w"], sp["h"], sp["d"]
    n = w * h * d
    ng = len(groups)
    V = float(F(gen.pf(sp["cell_vol"]["si"])))
    edge = V ** (1.0 / 3.0)
    cgspace = cgs.space
    if type(cgspace).__name__ != "RDGraphSpace" or cgspace.size() != ng:
        raise Violation("coarse-grained space has %d nodes, expected %d groups" % (cgspace.size(), ng), key="cg:nodes")
    for g in range(ng):
        mem = groups[g]
        nd = cgspace.nodes[g]
        want_v = len(mem) * V
        if abs(float(si.si_value(nd.volume)) - want_v) > RTOL * want_v:
            raise Violation("group %d volume %r m3, expected %d x %r" % (g, float(si.si_value(nd.volume)), len(mem), V), key="cg:volume")
        if nd.environment != sp["cell_env"][mem[0]]:
            raise Violation("group %d environment %d, members are in %d" % (g, nd.environment, sp["cell_env"][mem[0]]), key="cg:env")
    # state and flags
    st_si = [float(v) for v in si.si_values(system.state)]
    cg_si = [float(v) for v in si.si_values(cgs.state)]
    flags = [int(v) for v in system.chemostats]
    cgf = [int(v) for v in cgs.chemostats]
    ns = model.ns
    if len(cg_si) != ns * ng or len(cgf) != ns * ng:
        raise Violation("coarse-grained state/map length %d/%d, expected %d" % (len(cg_si), len(cgf), ns * ng), key="cg:len")
    if str(cgs.state.units) != str(system.state.units):
        raise Violation("state units changed from %s to %s" % (system.state.units, cgs.state.units), key="cg:state-units")
    for s in range(ns):
        tot_f = tot_c = 0.0
        for g in range(ng):
            want = sum(st_si[s * n + i] for i in groups[g])
            got = cg_si[s * ng + g]
            if abs(got - want) > 1e-12 * abs(want) + 1e-300:
                raise Violation("species %d group %d holds %r molecules, members sum to %r" % (s, g, got, want), key="cg:amount")
            wf = int(any(flags[s * n + i] for i in groups[g]))
            if cgf[s * ng + g] != wf:
                raise Violation("species %d group %d flag %d, members %s" % (s, g, cgf[s * ng + g], [flags[s * n + i] for i in groups[g]]), key="cg:flag")
            tot_f += want
            tot_c += got
        if abs(tot_f - tot_c) > 1e-12 * abs(tot_f) + 1e-300:
            raise Violation("species %d total over retained cells %r -> %r" % (s, tot_f, tot_c), key="cg:total")
    # edges
    m = c["map"]
    faces = {}
    for (i, j) in neighbours_faces(w, h, d):
        gi, gj = m[i], m[j]
        if gi < 0 or gj < 0 or gi == gj:
            continue
        k = (min(gi, gj), max(gi, gj))
        faces[k] = faces.get(k, 0) + 1
    cent = {}
    for g, mem in groups.items():
        cent[g] = [sum((i % w) for i in mem) / len(mem), sum(((i // w) % h) for i in mem) / len(mem),
                   sum((i // (w * h)) for i in mem) / len(mem)]
    got_edges = {}
    for e in cgspace.edges:
        if e.i == e.j:
            raise Violation("self-loop on group %d" % e.i, key="cg:self-loop")
        k = (min(e.i, e.j), max(e.i, e.j))
        if k in got_edges:
            raise Violation("duplicate edge %s" % (k,), key="cg:duplicate-edge")
        got_edges[k] = e
    if set(got_edges) != set(faces):
        raise Violation("edges %s, face adjacency gives %s" % (sorted(got_edges), sorted(faces)), key="cg:edges")
    for k, e in got_edges.items():
        ws = faces[k] * V ** (2.0 / 3.0)
        if abs(float(si.si_value(e.surface)) - ws) > 1e-11 * ws:
            raise Violation("edge %s surface %r m2, expected %d faces x %r" % (k, float(si.si_value(e.surface)), faces[k], V ** (2 / 3)), key="cg:surface")
        a, b = cent[k[0]], cent[k[1]]
        wd = edge * math.sqrt(sum((p - q) ** 2 for p, q in zip(a, b)))
        if abs(float(si.si_value(e.distance)) - wd) > 1e-11 * max(wd, edge):
            raise Violation("edge %s distance %r m, centroid distance %r" % (k, float(si.si_value(e.distance)), wd), key="cg:distance")


def strat_cg(ctx):
    return cg_case()


def check_cg(ctx, c):
    groups, cl, nt = analyse(c)
    ctx.note(c, nt, cl)
    spec = c["sys"]
    model = Model(spec)
    system = sut_call("build_system", B.build_system, spec, c["route"])
    before = ([float(v) for v in system.state.value], [int(v) for v in system.chemostats], system.space.size())
    cgs = sut_call("coarsegrain_system(valid map)", coarsegrain_system, system, list(c["map"]))
    check_cgsystem(c, system, cgs, model, groups)
    if ([float(v) for v in system.state.value], [int(v) for v in system.chemostats], system.space.size()) != before:
        raise Violation("coarsegrain_system modified the input system", key="cg:input-modified")


# ---- inverse ---------------------------------------------------------------------------------------------

def strat_inv(ctx):
    return st.fixed_dictionaries({"case": cg_case(max_cells=24), "nsamp": st.integers(1, 4),
                                  "vals": st.lists(st.integers(0, 10 ** 6), min_size=1, max_size=40),
                                  "qunit": st.sampled_from(si.QUANTITY_SYMS), "tunit": st.sampled_from(si.TIME_SYMS)})


def check_inv(ctx, cc):
    c = cc["case"]
    groups, cl, nt = analyse(c)
    ctx.note(cc, nt, cl + ["inverse"])
    spec = c["sys"]
    model = Model(spec)
    system = sut_call("build_system", B.build_system, spec, c["route"])
    cgs = sut_call("coarsegrain_system", coarsegrain_system, system, list(c["map"]))
    ng, ns, n = len(groups), model.ns, model.n
    nsamp = cc["nsamp"]
    vals = cc["vals"]
    data = [float(vals[k % len(vals)] + k) for k in range(nsamp * ns * ng)]
    times = [float(k) for k in range(nsamp)]
    tr = S.RDTrajectory(data=S.UnitArray(data, cc["qunit"]), t_sample=S.UnitArray(times, cc["tunit"]), system=cgs)
    out = sut_call("uncoarsegrain_trajectory", uncoarsegrain_trajectory, tr, system, list(c["map"]))
    got = [float(v) for v in out.data.value]
    if len(got) != nsamp * ns * n:
        raise Violation("un-coarse-grained data has %d values, expected %d" % (len(got), nsamp * ns * n), key="inv:len")
    if str(out.data.units) != str(tr.data.units) or [float(v) for v in out.t.value] != times or str(out.t.units) != str(tr.t.units):
        raise Violation("units or times changed by un-coarse-graining", key="inv:units-times")
    if list(out.cgmap) != list(c["map"]):
        raise Violation("cgmap not recorded", key="inv:cgmap")
    if out.system.space.size() != n:
        raise Violation("un-coarse-grained trajectory is attached to a space of %d cells" % out.system.space.size(), key="inv:system")
    m = c["map"]
    for k in range(nsamp):
        for s in range(ns):
            for i in range(n):
                g = m[i]
                want = 0.0 if g < 0 else data[k * ns * ng + s * ng + g] / len(groups[g])
                gv = got[k * ns * n + s * n + i]
                if abs(gv - want) > 1e-12 * abs(want):
                    raise Violation("sample %d species %d cell %d (group %d of %d members): %r, expected %r" % (
                        k, s, i, g, len(groups.get(g, [])), gv, want), key="inv:value")
            for g in range(ng):
                tot = sum(got[k * ns * n + s * n + i] for i in groups[g])
                if abs(tot - data[k * ns * ng + s * ng + g]) > 1e-9 * abs(tot) + 1e-300:
                    raise Violation("group total not preserved", key="inv:total")


# ---- simulate with a map ----------------------------------------------------------------------------------

def strat_sim(ctx):
    return st.fixed_dictionaries({"case": cg_case(max_cells=12, with_sim=True), "identity": st.booleans(), "steps": st.integers(2, 15),
                                  # every other keyword of the run has to reach the coarse-grained run as well
                                  "engine": st.sampled_from(["euler", "euler", "tauleap", "gillespie"]),
                                  "mode": st.sampled_from(["default", "default", "none", "redist", "Poisson", "auto"]),
                                  "seed": st.integers(0, 2 ** 31 - 1)})


def stable_dt(x, sc):
    best = None
    for xv, s in zip(x, sc):
        if s > 0:
            r = max(abs(xv), 1.0) / s
            best = r if best is None else min(best, r)
    if best is None:
        best = 1.0
    return 10.0 ** math.floor(math.log10(best * 0.02))


def check_sim(ctx, cc):
    c = dict(cc["case"])
    spec = c["sys"]
    model = Model(spec)
    n, ns = model.n, model.ns
    if cc["identity"]:
        c["map"] = list(range(n))
    groups, cl, nt = analyse(c)
    ctx.note(cc, nt or (cc["identity"] and n >= 2), cl + ["identity-map" if cc["identity"] else "general-map"])
    system = sut_call("build_system", B.build_system, spec, c["route"])
    x = model.state()
    dx, sc = model.derivative(x, mask=model.flags())
    from vlib.ratelaw import tame_dt
    dt = tame_dt(model, model.flags())
    N = cc["steps"]
    eng, mode = cc.get("engine", "euler"), cc.get("mode", "default")
    if eng != "euler" or mode != "default":
        return check_sim_first_sample(ctx, cc, c, system, model, groups, x, dt, eng, mode)
    kw = dict(sampling_policy="on_iteration", time_step="%r s" % dt, t_max="%r s" % (dt * (N + 0.5)))
    cg = sut_call("simulate(cgmap)", S.simulate, system, [0], engine=sim.engine("euler"), cgmap=list(c["map"]), **kw)
    d_cg = si.si_floats(cg.data)
    if len(cg.t) != N + 2 or len(d_cg) != (N + 2) * n * ns:
        raise Violation("simulate(cgmap) returned %d samples / %d values, expected %d / %d" % (len(cg.t), len(d_cg), N + 2, (N + 2) * n * ns), key="sim:shape")
    if list(cg.cgmap) != list(c["map"]):
        raise Violation("cgmap not recorded in the trajectory", key="sim:cgmap")
    m = c["map"]
    # sample 0 = aggregation spread back
    for s in range(ns):
        for i in range(n):
            g = m[i]
            want = 0.0 if g < 0 else sum(x[s * n + j] for j in groups[g]) / len(groups[g])
            if abs(d_cg[s * n + i] - want) > 1e-9 * abs(want) + 1e-300:
                raise Violation("sample 0, species %d cell %d: %r, aggregated and spread back %r" % (s, i, d_cg[s * n + i], want), key="sim:sample0")
    if cc["identity"]:
        plain = sut_call("simulate(plain)", S.simulate, system, [0], engine=sim.engine("euler"), **kw)
        d_pl = si.si_floats(plain.data)
        if len(d_pl) != len(d_cg):
            raise Violation("identity map changed the number of samples", key="sim:identity-shape")
        for k, (a, b) in enumerate(zip(d_pl, d_cg)):
            t = k % (n * ns)
            bound = max(abs(a), abs(x[t])) + dt * sc[t] * (k // (n * ns) + 1)
            if abs(a - b) > 1e-9 * bound:
                raise Violation("identity map: sample %d entry %d: plain %r vs coarse-grained %r" % (k // (n * ns), t, a, b), key="sim:identity")


def shared_centroid(c, groups):
    sp = c["sys"]["space"]
    w, h, d = sp["w"], sp["h"], sp["d"]
    m = c["map"]
    cent = {g: (sum((i % w) for i in mem) / len(mem), sum(((i // w) % h) for i in mem) / len(mem),
                sum((i // (w * h)) for i in mem) / len(mem)) for g, mem in groups.items()}
    for (i, j) in neighbours_faces(w, h, d):
        gi, gj = m[i], m[j]
        if gi >= 0 and gj >= 0 and gi != gj and max(abs(p - q) for p, q in zip(cent[gi], cent[gj])) < 1e-9:
            return True
    return False


def check_sim_first_sample(ctx, cc, c, system, model, groups, x, dt, eng, mode):
    """Other engines / initial-state processing modes: the first sample of the coarse-grained run obeys the mode that was
    asked for (and with the identity map it is the plain run's first sample, same seed)."""
    n, ns = model.n, model.ns
    m = c["map"]
    if eng != "euler" and shared_centroid(c, groups):
        # distance 0 between connected groups = infinite diffusion constant: the stochastic engines cannot advance time
        ctx.skip("connected groups share a centroid (degenerate map for a stochastic run)")
        return
    ctx.count("engine:%s,mode:%s" % (eng, mode))
    # only the sample at t = 0 is wanted: t_max = 0 ends every engine after its first step / event
    kw = dict(sampling_policy="on_t_sample", time_step="%r s" % dt, t_max="0 s", rng_seed=cc["seed"])
    if mode != "default":
        kw["init_state_processing"] = mode
    cg = sut_call("simulate(cgmap)", S.simulate, system, [0], engine=sim.engine(eng), cgmap=list(m), **kw)
    d = si.si_floats(cg.data)[:n * ns]
    effective = mode
    if mode in ("default", "auto"):
        effective = "none" if eng == "euler" else "redist"
    for sidx in range(ns):
        for i in range(n):
            g = m[i]
            got = d[sidx * n + i]
            if g < 0:
                if got != 0.0:
                    raise Violation("dropped cell %d holds %r in sample 0" % (i, got), key="sim:sample0-dropped")
                continue
            total = sum(x[sidx * n + j] for j in groups[g])
            if effective == "none":
                want = total / len(groups[g])
                if abs(got - want) > 1e-9 * abs(want) + 1e-300:
                    raise Violation("%s engine, init_state_processing=%r: sample 0, species %d cell %d is %r, the aggregated state spread back "
                                    "is %r (the state was processed although no processing was asked)" % (eng, mode, sidx, i, got, want),
                                    key="sim:mode-none")
            else:
                whole = got * len(groups[g])
                if abs(whole - round(whole)) > 1e-6 * max(1.0, abs(whole)):
                    raise Violation("%s engine, init_state_processing=%r: sample 0, species %d group %d holds %r molecules: not a whole "
                                    "number (group total before processing %r)" % (eng, mode, sidx, g, whole, total), key="sim:mode-discrete")
    if cc["identity"]:
        plain = sut_call("simulate(plain)", S.simulate, system, [0], engine=sim.engine(eng), **kw)
        dp = si.si_floats(plain.data)[:n * ns]
        for t, (a, b) in enumerate(zip(dp, d)):
            if abs(a - b) > 1e-9 * max(abs(a), abs(b)):
                raise Violation("identity map, %s engine, init_state_processing=%r, seed %d: first sample entry %d is %r in the plain run and %r "
                                "with the map" % (eng, mode, cc["seed"], t, a, b), key="sim:identity-first-sample")


RULE = RULE + " " + ("Since seeded round 4 the simulate facet draws the engine (euler, tauleap, gillespie), init_state_processing (default, none, redist, Poisson, auto) and the seed: with any non-default combination the first sample of the coarse-grained run must obey the mode that was asked (none: exactly the aggregated state spread back; redist / Poisson / auto on a stochastic engine: whole molecules per group) and, with the identity map, equal the plain run's first sample for the same seed. Maps whose connected groups share a centroid (distance 0, infinite diffusion constant) are skipped for the stochastic engines.")

FACETS = [
    Facet("coarsegrain", check_cg, strategy=strat_cg, examples=(480, 12000), shards=(16, 16)),
    Facet("inverse", check_inv, strategy=strat_inv, examples=(320, 8000), shards=(8, 16)),
    Facet("simulate", check_sim, strategy=strat_sim, examples=(400, 8000), shards=(8, 16), setup=sim.setup_plain),
]
