"""C01 Deterministic rate law: mass-action reactions plus Bernstein diffusion."""
from fractions import Fraction as F

from hypothesis import strategies as st

from vlib import gen, si
from vlib import build_model as B
from vlib.ratelaw import Model
from vlib.runner import Facet, Violation, sut_call
from vlib import sut
import strengths as S
from strengths import kinetics as K

PROPERTY = "C01"
RULE = ("Hypothesis system specs (1-3 environments, 1-4 species, 0-3 reversible reactions of order 0-4 "
        "per side with empty sides / repeated species / zero coefficients, per-environment constants with "
        "'default' and comma-joined keys; grids with every reflecting/periodic mix incl. periodic axes of "
        "length 1 and 2, simple graphs with per-node volumes and units; explicit or default state; a unit "
        "system per nesting level; built through constructors or dictionary readers). Oracle: reference "
        "rate law computed from the spec in SI (vlib/ratelaw.py), tolerance 1e-9 x sum|terms|. Facets: "
        "kinetics functions (whole derivative, single reaction rates, single diffusion rates, result "
        "dimension), make_dxdtf on one-cell systems, one Euler step of the native engine "
        "((x1-x0)/dt), and kinetics-vs-engine differential. Non-trivial: >= 2 species and (a neighbour "
        "pair with non-zero interface diffusivity or a reaction side of order >= 2) and a non-zero "
        "reference derivative. distinct = digest of the spec.")
ASSUMPTIONS = ["reference law vlib/ratelaw.py and SI table vlib/si.py",
               "Python kinetics on graphs only on simple graphs (property C15 states this restriction)",
               "no chemostats here (C03 owns them)"]
RTOL = 1e-9


def out_units(variety="mild"):
    return gen.us_any if variety == "any" else gen.us_mild


def classes_of(spec, model, dx):
    sp = spec["space"]
    cl = []
    cl.append("space:" + sp["type"])
    cl.append("species:%d" % len(spec["species"]))
    cl.append("reactions:%d" % len(spec["reactions"]))
    if len(set(model.cell_env)) > 1:
        cl.append("heterogeneous-env")
    if sp["type"] == "grid":
        dims = {"x": sp["w"], "y": sp["h"], "z": sp["d"]}
        for ax, v in sp["bc"].items():
            if v == "periodical":
                cl.append("periodic-len%s" % (dims[ax] if dims[ax] < 3 else "3+"))
    else:
        if len(set(model.vol)) > 1:
            cl.append("heterogeneous-volumes")
    for r in spec["reactions"]:
        for side in (r["sub"], r["prod"]):
            o = sum(side.values())
            cl.append("order:%d" % o)
            if any(c >= 2 for c in side.values()):
                cl.append("repeated-species")
            if any(c == 0 for c in side.values()):
                cl.append("zero-coefficient")
        for v in (r["kf"], r["kr"]):
            if not B.is_qv(v):
                cl.append("k-per-env")
                if "default" in v:
                    cl.append("default-fallback")
                if any("," in k for k in v):
                    cl.append("comma-key")
    levels = [spec["sys_units"], spec["net_units"], sp["units"]] + [s["units"] for s in spec["species"]] + \
             [r["units"] for r in spec["reactions"]]
    nd = len({tuple(sorted(l["sys"].items())) for l in levels})
    cl.append("unit-systems:%d" % min(nd, 4))
    return sorted(set(cl))


def nontrivial(spec, model, dx):
    if len(spec["species"]) < 2:
        return False
    if not any(abs(v) > 0 for v in dx):
        return False
    diff = any(k > 0 for (i, j, _, _), row in zip(model.slots, model.kslot) if i != j for k in row)
    high = any(sum(side.values()) >= 2 for r in spec["reactions"] for side in (r["sub"], r["prod"]))
    return diff or high


def to_si_rate(ua):
    return [float(v) for v in si.si_values(ua)]


def check_dim_rate(q, what):
    d = si.dimdict(q.units.dim)
    if d != gen.DIM_RATE:
        raise Violation("%s has dimension %s, expected amount/time" % (what, d), key="dimension")


def cmp_vec(got, want, scale, what, key, extra=0.0):
    for t, (g, w, s) in enumerate(zip(got, want, scale)):
        if abs(g - w) > RTOL * s + extra + 1e-300:
            raise Violation("%s[%d] = %r, reference law gives %r (sum|terms| %r)" % (what, t, g, w, s), key=key)


# ---- facet: kinetics functions ------------------------------------------------------------------

def strat_kinetics(ctx):
    return st.fixed_dictionaries({
        "sys": gen.system_spec(variety="mild", max_species=3, max_reactions=3, max_order=4, max_cells=8,
                               max_axis=3),
        "route": st.sampled_from(["ctor", "dict"]),
        "out": gen.us_mild,
        "state_arg": st.sampled_from(["none", "copy", "converted"]),
        "state_units": gen.us_any,
        "pick": st.integers(0, 10 ** 6),
    })


def check_kinetics(ctx, c):
    if isinstance(c.get("state_arg"), bool):      # replay files written before the 'converted' variant existed
        c = dict(c, state_arg="copy" if c["state_arg"] else "none")
    spec = c["sys"]
    model = Model(spec)
    x = model.state()
    dx, sc = model.derivative(x)
    ctx.note(c, nontrivial(spec, model, dx), classes_of(spec, model, dx) + ["route:" + c["route"], "state-arg:" + c["state_arg"]])
    system = sut_call("build_system", B.build_system, spec, c["route"])
    U = B.US(c["out"])
    kw = {"units_system": U}
    if c["state_arg"] == "copy":
        kw["state"] = system.state.copy()
    elif c["state_arg"] == "converted":
        # the same physical state handed over in another amount unit
        kw["state"] = sut_call("state.convert", system.state.convert, B.US(c["state_units"]))
    got = sut_call("compute_dstatedt", K.compute_dstatedt, system, **kw)
    check_dim_rate(got, "compute_dstatedt")
    for k in ("time", "quantity"):
        if got.units.sys[k] != c["out"][k]:
            raise Violation("compute_dstatedt result expressed in %s, asked %s" % (got.units.sys[k], c["out"][k]),
                            key="kinetics:units")
    cmp_vec(to_si_rate(got), dx, sc, "compute_dstatedt", "kinetics:dstatedt")
    # single reaction rates
    n = model.n
    if spec["reactions"]:
        ri = c["pick"] % len(spec["reactions"])
        i = (c["pick"] // 7) % n
        rf, rr = sut_call("compute_reaction_rates", K.compute_reaction_rates, system, ri, i, units_system=U)
        check_dim_rate(rf, "forward reaction rate")
        check_dim_rate(rr, "reverse reaction rate")
        wf = model.rate(model.channels[2 * ri], i, x)
        wr = model.rate(model.channels[2 * ri + 1], i, x)
        for g, w, nm in ((float(si.si_value(rf)), wf, "forward"), (float(si.si_value(rr)), wr, "reverse")):
            if abs(g - w) > RTOL * abs(w) + 1e-300:
                raise Violation("%s rate of reaction %d in cell %d = %r, reference %r" % (nm, ri, i, g, w),
                                key="kinetics:reaction-rate")
    # single diffusion rates over a neighbour pair
    pairs = [(a, b) for (a, b, _, _) in model.slots if a != b]
    if pairs:
        a, b = pairs[c["pick"] % len(pairs)]
        s = (c["pick"] // 3) % model.ns
        mult = sum(1 for p in pairs if p == (a, b))
        if mult == 1 or spec["space"]["type"] == "grid":
            kf, kr = sut_call("compute_diffusion_rates", K.compute_diffusion_rates, system, s, a, b, units_system=U)
            check_dim_rate(kf, "diffusion rate")
            slot = [t for t, (i, j, _, _) in enumerate(model.slots) if (i, j) == (a, b)][0]
            back = [t for t, (i, j, _, _) in enumerate(model.slots) if (i, j) == (b, a)][0]
            wf = model.kslot[slot][s] * x[s * n + a]
            wr = model.kslot[back][s] * x[s * n + b]
            for g, w, nm in ((float(si.si_value(kf)), wf, "src->dst"), (float(si.si_value(kr)), wr, "dst->src")):
                if abs(g - w) > RTOL * abs(w) + 1e-300:
                    raise Violation("diffusion rate %s of species %d between cells %d,%d = %r, reference %r" % (
                        nm, s, a, b, g, w), key="kinetics:diffusion-rate")


# ---- facet: make_dxdtf ---------------------------------------------------------------------------

def strat_dxdtf(ctx):
    return st.fixed_dictionaries({
        "sys": gen.system_spec(variety="mild", max_species=4, max_reactions=4, max_order=4, max_cells=1),
        "route": st.sampled_from(["ctor", "dict"]),
        "out": gen.us_mild,
        # an integrator calls the SAME function object again and again at other states: per further call one
        # multiplier per species (applied cyclically) to the system's state
        "more_states": st.lists(st.lists(st.sampled_from([0.0, 0.5, 1.0, 2.0, 3.0]), min_size=1, max_size=4),
                                min_size=0, max_size=3),
    })


def check_dxdtf(ctx, c):
    spec = c["sys"]
    model = Model(spec)
    x = model.state()
    dx, sc = model.derivative(x)
    ctx.note(c, nontrivial(spec, model, dx), classes_of(spec, model, dx))
    system = sut_call("build_system", B.build_system, spec, c["route"])
    U = B.US(c["out"])
    f = sut_call("make_dxdtf", system.make_dxdtf, U)
    qs = float(si.QUANTITY[c["out"]["quantity"]])
    ts = float(si.TIME[c["out"]["time"]])
    x_u = [v / qs for v in x]
    got = sut_call("dxdtf(t, x)", f, 0.0, x_u)
    got_si = [float(g) * qs / ts for g in got]
    cmp_vec(got_si, dx, sc, "make_dxdtf()(0, x)", "dxdtf")
    # differential with the kinetics functions
    k = sut_call("compute_dstatedt", K.compute_dstatedt, system, units_system=U)
    for t, (a, b, s) in enumerate(zip(got_si, to_si_rate(k), sc)):
        if abs(a - b) > RTOL * s + 1e-300:
            raise Violation("make_dxdtf and compute_dstatedt disagree on entry %d: %r vs %r" % (t, a, b),
                            key="dxdtf-vs-kinetics")
    # further calls of the same function object (other states, then the first state again)
    calls = [[m[t % len(m)] * x[t] for t in range(len(x))] for m in c.get("more_states", [])]
    if calls:
        calls.append(list(x))
        ctx.count("dxdtf-repeated-calls")
    for n_call, xs in enumerate(calls, start=2):
        want, scs = model.derivative(xs)
        got = sut_call("dxdtf(t, x) again", f, 0.1 * n_call, [v / qs for v in xs])
        cmp_vec([float(g) * qs / ts for g in got], want, scs, "call #%d of the same make_dxdtf() function" % n_call,
                "dxdtf:repeated-call")


# ---- facet: one Euler step -----------------------------------------------------------------------

def strat_euler(ctx):
    return st.fixed_dictionaries({
        "sys": gen.system_spec(variety="mild", max_species=4, max_reactions=3, max_order=4, max_cells=27,
                               max_axis=4, simple_graph=False),
        "route": st.sampled_from(["ctor", "dict"]),
        "out": gen.us_mild,
        "dt_form": st.sampled_from(["bare", "str"]),
        "dt_sys": gen.us_mild,
        "with_kinetics": st.booleans(),
        # every cell holds exactly the same AMOUNT of a species (bit-equal floats): equal amounts in cells of different
        # volume are different concentrations, so there is a flux; None = the drawn state
        "uniform_amount": st.one_of(st.none(), st.none(), st.sampled_from([10.0, 1.0, 250.0, 0.5])),
    })


def euler_setup(ctx):
    sut.use_engine("plain")


def pick_dt(x, dx, sc):
    """a decimal dt (SI seconds, exact Fraction) such that dt*scale ~ 0.05 |x| for the fastest entry"""
    best = None
    for xv, s in zip(x, sc):
        if s > 0:
            r = (abs(xv) if xv else 1.0) / s
            best = r if best is None else min(best, r)
    if best is None:
        best = 1.0
    import math
    e = math.floor(math.log10(best * 0.05))
    return F(10) ** e


def check_euler(ctx, c):
    spec = c["sys"]
    if c.get("uniform_amount") is not None:
        n_entries = len(spec["species"]) * gen.space_size(spec["space"])
        spec = dict(spec, state={"values": [gen.fs(F(c["uniform_amount"]))] * n_entries, "units": "molecule"})
    model = Model(spec)
    x = model.state()
    dx, sc = model.derivative(x)
    ctx.note(c, nontrivial(spec, model, dx), classes_of(spec, model, dx) + ["route:" + c["route"]] + (["uniform-amounts"] if c.get("uniform_amount") is not None else []))
    system = sut_call("build_system", B.build_system, spec, c["route"])
    from vlib.ratelaw import tame_dt
    dt = min(pick_dt(x, dx, sc), F(tame_dt(model, frac=0.05)))
    U = c["out"]
    if c["dt_form"] == "bare":
        dt_arg = float(dt / si.TIME[U["time"]])
        tmax_arg = float(dt * F(3, 2) / si.TIME[U["time"]])
    else:
        sym = c["dt_sys"]["time"]
        dt_arg = "%r %s" % (float(dt / si.TIME[sym]), sym)
        tmax_arg = "%r %s" % (float(dt * F(3, 2) / si.TIME[sym]), sym)
    traj = sut_call("simulate", S.simulate, system, [0], engine=S.euler_engine(), sampling_policy="on_iteration",
                    time_step=dt_arg, t_max=tmax_arg, units_system=B.US(U))
    n = model.n * model.ns
    data = [float(v) for v in si.si_values(traj.data)]
    if len(data) < 2 * n:
        raise Violation("Euler run with on_iteration sampling returned %d values (< 2 samples)" % len(data),
                        key="euler:samples")
    if si.dimdict(traj.data.units.dim) != gen.DIM_QTY:
        raise Violation("trajectory data dimension %s" % traj.data.units.dim, key="euler:dimension")
    x0, x1 = data[:n], data[n:2 * n]
    dtf = float(dt)
    for t in range(n):
        if abs(x0[t] - x[t]) > 1e-12 * abs(x[t]) + 1e-300:
            raise Violation("sample 0 entry %d = %r, initial state %r" % (t, x0[t], x[t]), key="euler:x0")
        got = (x1[t] - x0[t]) / dtf
        tol = RTOL * sc[t] + 4e-16 * (abs(x0[t]) + abs(x1[t])) / dtf + 1e-300
        if abs(got - dx[t]) > tol:
            raise Violation("Euler step: (x1-x0)/dt[%d] = %r, reference law gives %r (sum|terms| %r, dt %r)" % (
                t, got, dx[t], sc[t], dtf), key="euler:step")
    if c["with_kinetics"] and model.n <= 6 and model.ns <= 3 and not _multigraph(spec):
        k = sut_call("compute_dstatedt", K.compute_dstatedt, system)
        check_dim_rate(k, "compute_dstatedt")
        ks = to_si_rate(k)
        for t in range(n):
            got = (x1[t] - x0[t]) / dtf
            tol = RTOL * sc[t] + 4e-16 * (abs(x0[t]) + abs(x1[t])) / dtf + 1e-300
            if abs(got - ks[t]) > tol:
                raise Violation("engine step and kinetics functions disagree on entry %d: %r vs %r" % (t, got, ks[t]),
                                key="euler-vs-kinetics")


def _multigraph(spec):
    sp = spec["space"]
    if sp["type"] != "graph":
        return False
    seen = set()
    for e in sp["edges"]:
        k = (min(e["i"], e["j"]), max(e["i"], e["j"]))
        if k in seen or e["i"] == e["j"]:
            return True
        seen.add(k)
    return False


RULE = RULE + " " + ("Since seeded round 4 the dxdtf facet calls the SAME function object returned by make_dxdtf up to four more times at other states (per-species multipliers 0, 0.5, 1, 2, 3 of the system's state) and once more at the first state, each call against the reference law (an integrator does exactly this).")

RULE = RULE + " " + ('Since seeded round 5 one Euler-step case in three starts from a state in which every cell holds exactly the same amount of each species (bit-equal floats in cells of different volume are different concentrations).')

FACETS = [
    Facet("kinetics", check_kinetics, strategy=strat_kinetics, examples=(640, 6000), shards=(16, 16)),
    Facet("dxdtf", check_dxdtf, strategy=strat_dxdtf, examples=(1200, 16000), shards=(4, 16)),
    Facet("euler_step", check_euler, strategy=strat_euler, examples=(1600, 24000), shards=(8, 16), setup=euler_setup),
]
