"""C18 Unit and quantity text: print-parse round-trip, SI meaning, rejection."""
import itertools
import math
import struct
from fractions import Fraction as F

from hypothesis import strategies as st

from vlib import si
from vlib import unitgrammar as G
from vlib.runner import Facet, Violation, must_raise, sut_call
from vlib import sut  # noqa: F401
import strengths as S

PROPERTY = "C18"
RULE = ("roundtrip: Hypothesis over 1100 unit systems x exponents -9..9 x any finite double (incl. "
        "subnormals, -0.0), parse(str(x)) must give the same exponents, the same base unit for every "
        "non-zero exponent and a bit-identical value; one_factor: exhaustive over the 52 symbol "
        "spellings x exponents -9..9 (explicit 1 and implicit); two_factor: exhaustive in the thorough "
        "tier (sampled in quick); grammar: Hypothesis strings of 1-3 factors with both separators, "
        "compared with a three-valued reference grammar (ACCEPT -> same dimension, base units, SI scale; "
        "REJECT -> must raise; UNSPEC -> nothing asserted) plus metamorphic a/b == a.b-1 and factor "
        "permutation; malformed: one mutation of a valid string landing in a REJECT class of the "
        "reference grammar (for unit strings and quantity strings). Non-trivial: derived (litre/molar) "
        "symbol with exponent != 1, or >= 2 factors of different kinds, or any REJECT-class input.")
ASSUMPTIONS = ["reference grammar vlib/unitgrammar.py (from documentation/using_quantities_with_units.rst)",
               "inputs the documentation neither allows nor lists as wrong (surrounding blanks, exponent "
               "0 / leading zeros, non-ASCII digits, '_' in numbers, inf/nan) are UNSPEC: nothing asserted"]
EXHAUSTIVE_PART = ("facet 'one_factor': all 52 symbol spellings x exponents -9..9 (+ implicit 1); "
                   "facet 'two_factor' in the thorough tier: all ordered pairs of such factors x 2 separators")

EXPS = [None] + [e for e in range(-9, 10) if e != 0]


def fac(sym, e):
    return sym + ("" if e is None else str(e))


def bits(x):
    return struct.pack("<d", x)


def compare_accept(text, ref, u, what):
    _, dim, units, scale = ref
    gd = si.dimdict(u.dim)
    if gd != dim:
        raise Violation("%s: '%s' read with dimension %s, grammar gives %s" % (what, text, gd, dim),
                        key="accept:dim")
    gs = si.sysdict(u.sys)
    for k in si.KINDS:
        if dim[k] != 0 and gs[k] != units[k]:
            raise Violation("%s: '%s' read with %s unit %s, grammar gives %s" % (what, text, k, gs[k], units[k]),
                            key="accept:unit")
    if si.scale(gs, gd) != scale:
        raise Violation("%s: '%s' has SI scale %s, grammar gives %s" % (
            what, text, float(si.scale(gs, gd)), float(scale)), key="accept:scale")


def check_unit_text(ctx, text, classes, nontrivial):
    ref = G.parse_unit(text)
    c = {"unit": text}
    if ref[0] == "UNSPEC":
        ctx.skip("unspecified: " + ref[1].split(" ")[0])
        return ref
    ctx.note(c, nontrivial or ref[0] == "REJECT", classes + [ref[0] if ref[0] == "ACCEPT" else "REJECT:" + ref[1]])
    if ref[0] == "REJECT":
        must_raise("parse_units(%r) [%s]" % (text, ref[1]), S.parse_units, text)
        must_raise("UnitValue(1, %r) [%s]" % (text, ref[1]), S.UnitValue, 1.0, text)
        return ref
    u = sut_call("parse_units(%r)" % text, S.parse_units, text)
    compare_accept(text, ref, u, "parse_units")
    # same meaning through the quantity parser, with the exact SI value
    q = sut_call("UnitValue('3 %s')" % text, S.UnitValue, "3 " + text)
    compare_accept(text, ref, q.units, "UnitValue(str)")
    if q.value != 3.0:
        raise Violation("UnitValue('3 %s').value = %r" % (text, q.value), key="accept:value")
    return ref


# ---- one / two factor exhaustive ---------------------------------------------------------------


def enum_one(ctx):
    for sym in G.ALL_SPELLINGS:
        for e in EXPS:
            yield {"f": [sym, e]}


def _derived(sym):
    s = G.U_SPELL.get(sym, sym)
    return s in si.LITRE or s in si.MOLAR


def check_one(ctx, c):
    sym, e = c["f"]
    check_unit_text(ctx, fac(sym, e), ["one_factor"], _derived(sym) and e not in (None, 1))


def enum_two(ctx):
    facs = [(s, e) for s in G.ALL_SPELLINGS for e in EXPS]
    if ctx.tier == "thorough":
        for a in facs:
            for b in facs:
                for sep in "./":
                    yield {"a": list(a), "sep": sep, "b": list(b)}
    else:
        # quick tier: a fixed arithmetic sample of the same space (about 1/150)
        n = len(facs)
        i = 0
        for a in facs:
            for b in facs:
                for sep in "./":
                    i += 1
                    if i % 151 == 0:
                        yield {"a": list(a), "sep": sep, "b": list(b)}


def _kinds(sym):
    return {k for k, _, _ in G.SYMBOLS[G.U_SPELL.get(sym, sym)]}


def check_two(ctx, c):
    a, b = c["a"], c["b"]
    text = fac(*a) + c["sep"] + fac(*b)
    nt = (_kinds(a[0]) != _kinds(b[0])) or (_derived(a[0]) and a[1] not in (None, 1))
    ref = check_unit_text(ctx, text, ["two_factor"], nt)
    if ref[0] == "ACCEPT":
        # a/b == a.b-1 and commutation
        eb = -(1 if b[1] is None else b[1]) if c["sep"] == "/" else (1 if b[1] is None else b[1])
        ea = 1 if a[1] is None else a[1]
        alt = fac(b[0], eb) + "." + fac(a[0], ea)
        u1 = S.parse_units(text)
        u2 = sut_call("parse_units(%r)" % alt, S.parse_units, alt)
        if not (u1 == u2):
            raise Violation("'%s' and '%s' are read as different units (%s vs %s)" % (text, alt, u1, u2),
                            key="meta:order")


# ---- generated grammar ---------------------------------------------------------------------------

sym_st = st.sampled_from(G.ALL_SPELLINGS)
exp_st = st.sampled_from(EXPS)


@st.composite
def unit_factors(draw, max_factors=3):
    """A list of (sym, exp, sep) biased towards kind-consistent strings."""
    n = draw(st.integers(1, max_factors))
    chosen = {}
    out = []
    for i in range(n):
        sym = draw(sym_st)
        if draw(st.integers(0, 3)):
            # steer towards consistency: reuse the base units already chosen
            for _ in range(6):
                ok = all(chosen.get(k, b) == b for k, b, _m in G.SYMBOLS[G.U_SPELL.get(sym, sym)])
                if ok:
                    break
                sym = draw(sym_st)
        for k, b, _m in G.SYMBOLS[G.U_SPELL.get(sym, sym)]:
            chosen.setdefault(k, b)
        out.append([sym, draw(exp_st), draw(st.sampled_from("./")) if i else ""])
    return out


def render(factors):
    return "".join(sep + fac(sym, e) for sym, e, sep in factors)


def strat_grammar(ctx):
    return st.fixed_dictionaries({"factors": unit_factors(), "perm_seed": st.integers(0, 10 ** 6)})


def check_grammar(ctx, c):
    factors = c["factors"]
    text = render(factors)
    kinds = set()
    for sym, e, _ in factors:
        kinds |= _kinds(sym)
    nt = len(factors) >= 2 and len(kinds) >= 2 or any(_derived(s) and e not in (None, 1) for s, e, _ in factors)
    ref = check_unit_text(ctx, text, ["grammar:%d" % len(factors)], nt)
    if ref[0] != "ACCEPT":
        return
    # metamorphic: rewrite every '/' as '.' with negated exponent, then permute
    flat = []
    for sym, e, sep in factors:
        ee = 1 if e is None else e
        flat.append((sym, -ee if sep == "/" else ee))
    import random
    r = random.Random(c["perm_seed"])
    r.shuffle(flat)
    alt = ".".join(fac(s, e) for s, e in flat)
    u1 = S.parse_units(text)
    u2 = sut_call("parse_units(%r)" % alt, S.parse_units, alt)
    if not (u1 == u2):
        raise Violation("'%s' and '%s' are read as different units (%s vs %s)" % (text, alt, u1, u2),
                        key="meta:perm")
    if si.scale(si.sysdict(u2.sys), si.dimdict(u2.dim)) != ref[3]:
        raise Violation("'%s' has a different SI scale than '%s'" % (alt, text), key="meta:scale")


# ---- round trip ----------------------------------------------------------------------------------

sys_st = st.fixed_dictionaries({"space": st.sampled_from(si.SPACE_SYMS),
                                "time": st.sampled_from(si.TIME_SYMS),
                                "quantity": st.sampled_from(si.QUANTITY_SYMS)})
dim9_st = st.fixed_dictionaries({k: st.integers(-9, 9) for k in si.KINDS})


def strat_roundtrip(ctx):
    return st.fixed_dictionaries({
        "sys": sys_st, "dim": dim9_st,
        "value": st.floats(allow_nan=False, allow_infinity=False, allow_subnormal=True).map(lambda x: x.hex())})


def check_roundtrip(ctx, c):
    v = float.fromhex(c["value"])
    dim = c["dim"]
    nz = sum(1 for k in si.KINDS if dim[k])
    ctx.note(c, nz >= 2, ["roundtrip:nz%d" % nz] + (["roundtrip:subnormal"] if v != 0 and abs(v) < 2.3e-308 else [])
             + (["roundtrip:negzero"] if v == 0 and math.copysign(1, v) < 0 else []))
    u = S.Units(S.UnitsSystem(**c["sys"]), S.UnitsDimensions(**dim))
    # units
    text = str(u)
    u2 = sut_call("parse_units(str(units)) %r" % text, S.parse_units, text)
    _same_units(u, u2, text, dim, c["sys"])
    u3 = sut_call("Units(str(units))", S.Units, text)
    _same_units(u, u3, text, dim, c["sys"])
    # quantities
    q = S.UnitValue(v, u)
    qt = str(q)
    for name, fn in (("parse_unitvalue", S.parse_unitvalue), ("UnitValue", S.UnitValue)):
        q2 = sut_call("%s(str(q)) %r" % (name, qt), fn, qt)
        _same_units(u, q2.units, qt, dim, c["sys"])
        if bits(q2.value) != bits(v):
            raise Violation("%s('%s').value = %r, printed from %r" % (name, qt, q2.value, v), key="roundtrip:value")


def _same_units(u, u2, text, dim, sysd):
    gd = si.dimdict(u2.dim)
    if gd != dim:
        raise Violation("'%s' parsed back with dimension %s, printed from %s" % (text, gd, dim), key="roundtrip:dim")
    gs = si.sysdict(u2.sys)
    for k in si.KINDS:
        if dim[k] != 0 and gs[k] != sysd[k]:
            raise Violation("'%s' parsed back with %s unit %s, printed from %s" % (text, k, gs[k], sysd[k]),
                            key="roundtrip:unit")
    if not (u == u2):
        raise Violation("'%s' parsed back compares unequal to the printed unit" % text, key="roundtrip:eq")


# ---- malformed -----------------------------------------------------------------------------------

UNKNOWN = ["x", "Mol", "sec", "µ", "mmm", "KM", "l", "hr", "molecules", "Ms", "kg", "um2x", "mo", "umm", "minute", "dL", "hM"]
MUTATIONS = ["unknown", "double-sep", "lead-sep", "trail-sep", "plus-exp", "frac-exp", "exp-first",
             "blank-before-sep", "blank-after-sep", "blank-before-exp", "blank-after-exp", "blank-inside-sym", "kind-conflict",
             "q-glued", "q-nonnumeric", "q-blank-in-unit", "q-two-units"]


def strat_malformed(ctx):
    return st.fixed_dictionaries({
        "factors": unit_factors(), "mut": st.sampled_from(MUTATIONS), "pos": st.integers(0, 2),
        "pick": st.integers(0, 1000), "value": st.sampled_from(["1", "2.5", "-3e-4", "+1.3e-10", "0"])})


def _consistent(factors):
    return G.parse_unit(render(factors))[0] == "ACCEPT"


def mutate(c):
    """-> (text, is_quantity) or None if the mutation does not apply."""
    f = [list(x) for x in c["factors"]]
    if not _consistent(f):
        return None
    i = c["pos"] % len(f)
    m = c["mut"]
    pick = c["pick"]
    val = c["value"]
    if m == "unknown":
        f[i][0] = UNKNOWN[pick % len(UNKNOWN)]
        return render(f), False
    if m == "double-sep":
        if len(f) < 2:
            return None
        i = max(i, 1)
        f[i][2] = f[i][2] + "./"[pick % 2]
        return render(f), False
    if m == "lead-sep":
        return "./"[pick % 2] + render(f), False
    if m == "trail-sep":
        return render(f) + "./"[pick % 2], False
    if m == "plus-exp":
        f[i][1] = "+%d" % (1 + pick % 9)
        return render(f), False
    if m == "frac-exp":
        e = f[i][1] if f[i][1] is not None else 1
        f[i][1] = "%d.%d" % (e, 1 + pick % 9)
        return render(f), False
    if m == "exp-first":
        e = f[i][1] if f[i][1] is not None else 2
        f[i][0], f[i][1] = str(e) + f[i][0], None
        return render(f), False
    blank = [" ", " ", "\t", "\n", "\r", "\x0b", "\x0c"][(pick // 13) % 7]     # white space is not only U+0020
    if m == "blank-before-sep":
        if len(f) < 2:
            return None
        i = max(i, 1)
        f[i][2] = blank + f[i][2]
        return render(f), False
    if m == "blank-after-sep":
        if len(f) < 2:
            return None
        i = max(i, 1)
        f[i][2] = f[i][2] + blank
        return render(f), False
    if m == "blank-before-exp":
        e = f[i][1] if f[i][1] is not None else 2
        f[i][1] = "%s%d" % (blank, e)
        return render(f), False
    if m == "blank-after-exp":
        # directly after the digits of an explicit exponent, before the next separator
        if len(f) < 2:
            return None
        i = min(i, len(f) - 2)
        e = f[i][1] if f[i][1] is not None else 2
        f[i][1] = "%d%s" % (e, blank)
        return render(f), False
    if m == "blank-inside-sym":
        s = f[i][0]
        if len(s) < 2:
            return None
        k = 1 + pick % (len(s) - 1)
        f[i][0] = s[:k] + blank + s[k:]
        return render(f), False
    if m == "kind-conflict":
        # add a factor whose base unit of some kind differs from one already present
        ref = G.parse_unit(render(f))
        units = ref[2]
        cands = []
        for sym in G.ALL_SPELLINGS:
            for k, b, _m in G.SYMBOLS[G.U_SPELL.get(sym, sym)]:
                if k in units and units[k] != b:
                    cands.append(sym)
                    break
        if not cands:
            return None
        f.append([cands[pick % len(cands)], EXPS[pick % len(EXPS)], "./"[pick % 2]])
        return render(f), False
    if m == "q-glued":
        return val + render(f), True
    if m == "q-nonnumeric":
        bad = ["a", "[1, 2]", "{'v', 1}", "1,5", "one", "--1", "1e", "0x10", "1..2"][pick % 9]
        return bad + " " + render(f), True
    if m == "q-blank-in-unit":
        if len(f) < 2:
            return None
        i = max(i, 1)
        f[i][2] = [" " + f[i][2], f[i][2] + " "][pick % 2]
        return val + " " + render(f), True
    if m == "q-two-units":
        # "1 m s": two blank-separated unit tokens
        return val + " " + render(f) + " " + fac(*c["factors"][0][:2]), True
    return None


def check_malformed(ctx, c):
    mt = mutate(c)
    if mt is None:
        ctx.skip("mutation not applicable")
        return
    text, is_q = mt
    ref = G.parse_quantity(text) if is_q else G.parse_unit(text)
    if ref[0] != "REJECT":
        ctx.skip("mutation did not leave the grammar (%s)" % ref[0])
        return
    ctx.note({"text": text, "quantity": is_q}, True, ["malformed:" + c["mut"], "REJECT:" + ref[1]])
    if is_q:
        must_raise("parse_unitvalue(%r) [%s]" % (text, ref[1]), S.parse_unitvalue, text)
        must_raise("UnitValue(%r) [%s]" % (text, ref[1]), S.UnitValue, text)
    else:
        must_raise("parse_units(%r) [%s]" % (text, ref[1]), S.parse_units, text)
        must_raise("Units(%r) [%s]" % (text, ref[1]), S.Units, text)
        must_raise("UnitValue(1, %r) [%s]" % (text, ref[1]), S.UnitValue, 1.0, text)
        must_raise("UnitValue('1 ' + %r) [%s]" % (text, ref[1]), S.UnitValue, "1 " + text)


# ---- quantity text accepted ----------------------------------------------------------------------

def strat_quantity(ctx):
    num = st.one_of(
        st.floats(allow_nan=False, allow_infinity=False).map(repr),
        st.sampled_from(["1", "+1.3e-10", "-1.3e-10", "1.5", ".5", "5.", "1E3", "007", "-0", "1e+2"]))
    return st.fixed_dictionaries({"num": num, "factors": unit_factors(), "ws": st.sampled_from([" ", "  ", "\t", " \t "])})


def check_quantity(ctx, c):
    text = c["num"] + c["ws"] + render(c["factors"])
    ref = G.parse_quantity(text)
    if ref[0] == "UNSPEC":
        ctx.skip("unspecified quantity")
        return
    ctx.note({"text": text}, len(c["factors"]) >= 2, ["quantity:" + ref[0]])
    if ref[0] == "REJECT":
        must_raise("UnitValue(%r) [%s]" % (text, ref[1]), S.UnitValue, text)
        return
    q = sut_call("UnitValue(%r)" % text, S.UnitValue, text)
    if bits(q.value) != bits(ref[1]):
        raise Violation("UnitValue(%r).value = %r, expected %r" % (text, q.value, ref[1]), key="quantity:value")
    compare_accept(text, ("ACCEPT",) + ref[2:], q.units, "UnitValue(str)")
    # the function behind the constructor, and the same text once more after the caller has modified what it got
    # (the value of a text cannot depend on what was done with the result of an earlier parse)
    p1 = sut_call("parse_unitvalue(%r)" % text, S.parse_unitvalue, text)
    if bits(p1.value) != bits(ref[1]):
        raise Violation("parse_unitvalue(%r).value = %r, expected %r" % (text, p1.value, ref[1]), key="quantity:value")
    compare_accept(text, ("ACCEPT",) + ref[2:], p1.units, "parse_unitvalue")
    utext = render(c["factors"])
    u1 = sut_call("parse_units(%r)" % utext, S.parse_units, utext)
    for obj in (q, p1):
        obj.value = obj.value + 1006.0
        obj.units = "km-1.h2"
    for k, v in (("space", "km"), ("time", "h"), ("quantity", "kmol")):
        u1.sys[k] = v
    for name, fn in (("parse_unitvalue", S.parse_unitvalue), ("UnitValue", S.UnitValue)):
        p2 = sut_call("%s(%r) again" % (name, text), fn, text)
        if bits(p2.value) != bits(ref[1]):
            raise Violation("%s(%r).value = %r after an earlier result for the same text was modified by its owner, expected %r" % (
                name, text, p2.value, ref[1]), key="quantity:reparse")
        compare_accept(text, ("ACCEPT",) + ref[2:], p2.units, "%s (same text parsed again)" % name)
    u2 = sut_call("parse_units(%r) again" % utext, S.parse_units, utext)
    compare_accept(utext, ("ACCEPT",) + ref[2:], u2, "parse_units (same text parsed again)")


# ---- thorough tier: coverage-guided campaign (Atheris) with the reference oracle inside the target ----------

def enum_atheris(ctx):
    if ctx.tier != "thorough":
        return
    yield {"corpus": "empty", "runs": 1500000, "seed": ctx.seed}
    yield {"corpus": "empty", "runs": 1500000, "seed": ctx.seed + 1000}


def check_atheris(ctx, c):
    from vlib import atheris_run
    if not atheris_run.available():
        ctx.skip("atheris is not installed (setup.sh could not install it)")
        return
    execs, fail = atheris_run.campaign("unit_text_fuzz.py", c["runs"], c["seed"], prop="C18")
    ctx.note(c, True, ["atheris"])
    ctx.count("atheris_executions", execs)
    if fail:
        raise Violation("Atheris (%d executions): %s ; input saved as %s (re-run: %s)" % (execs, fail["message"], fail["artifact"], fail["rerun"]),
                        key="atheris")


RULE = RULE + " " + ('Since seeded round 4 the quantity facet also calls parse_unitvalue and parse_units directly, modifies the returned objects through their public setters (value, units, units-system components) and parses the same text again with every entry point: the value of a text cannot depend on what a caller did with an earlier result.')

RULE = RULE + " " + ('Since seeded round 5 the blank mutations use every ASCII white-space character and also put it directly after the digits of an exponent.')

FACETS = [
    Facet("one_factor", check_one, enumerate=enum_one, shards=(2, 2)),
    Facet("two_factor", check_two, enumerate=enum_two, shards=(6, 16)),
    Facet("grammar", check_grammar, strategy=strat_grammar, examples=(6000, 300000), shards=(6, 16)),
    Facet("roundtrip", check_roundtrip, strategy=strat_roundtrip, examples=(6000, 300000), shards=(6, 16)),
    Facet("malformed", check_malformed, strategy=strat_malformed, examples=(6000, 200000), shards=(6, 16)),
    Facet("quantity", check_quantity, strategy=strat_quantity, examples=(3000, 100000), shards=(4, 16)),
    Facet("atheris", check_atheris, enumerate=enum_atheris, shards=(2, 2)),
]
