"""C19 Reaction equations: stoichiometry, order and rate-constant dimensions."""
from fractions import Fraction as F

from hypothesis import strategies as st

from vlib import gen, si
from vlib.runner import Facet, Violation, must_raise, sut_call
from vlib import sut  # noqa: F401
import strengths as S

PROPERTY = "C19"
RULE = ("stoichiometry: Hypothesis equations rendered from a spec (labels over printable ASCII and "
        "non-ASCII letters/digits/symbols without white space, '+' or '->'; coefficients 0..9 with 1 "
        "optionally omitted; up to 4 terms per side, repeated species, empty sides, arbitrary blanks/tabs "
        "around tokens) or given as two dicts: ssto/psto/dsto over a shuffled label list with extra "
        "labels, order/rorder, substrates/products, and Reaction(r.to_string()) must reproduce the summed "
        "coefficients; constants: orders 0..8, bare numbers get dimension amount^(1-n) length^(3n-3)/time "
        "in the reaction's unit system (SI value via the table), scalar or per-environment, explicit "
        "quantities of the right dimension keep their SI value, any other dimension raises; split_K: "
        "split() gives two irreversible reactions with swapped sides and the same constants, K = kf/kr in "
        "SI per environment with 'default', None where kr = 0; network: undeclared species, duplicate "
        "species labels, duplicate reaction labels raise, the valid twin is accepted. Non-trivial: "
        "repeated species or zero coefficient or empty side, order >= 2, non-default unit system.")
ASSUMPTIONS = ["labels contain no Unicode white space, no '+' and no '->' (the label rule's intent)",
               "K facet uses mild unit systems and orders <= 4 so that float conversion factors stay finite"]

ALPHABET = ("ABCDEFGHIJKLMNOPQRSTUVWXYZabcdefghijklmnopqrstuvwxyz0123456789_*()[]{}.,:;!?#$%&'\"/\\|<=~^@`-"
            "µαβγΩéñ中文日본١٢")
label_st = st.text(alphabet=ALPHABET, min_size=1, max_size=5).filter(lambda s: "->" not in s)
ws_st = st.sampled_from(["", " ", "  ", "\t", " \t "])
ws1_st = st.sampled_from([" ", "  ", "\t", " \t "])


@st.composite
def side_st(draw, labels, max_terms=4, max_order=None):
    n = draw(st.integers(0, max_terms))
    terms = []
    total = 0
    for _ in range(n):
        lb = draw(st.sampled_from(labels))
        co = draw(st.sampled_from([1, 1, 1, 2, 2, 3, 0, 4, 5, 9]))
        if max_order is not None and total + co > max_order:
            co = max(0, max_order - total)
        total += co
        terms.append([co, lb, draw(st.booleans())])  # third: write the coefficient 1 explicitly
    return terms


def render_side(draw_ws, terms):
    parts = []
    for co, lb, explicit in terms:
        if co == 1 and not explicit:
            parts.append(draw_ws[0] + lb + draw_ws[1])
        else:
            parts.append(draw_ws[0] + str(co) + draw_ws[2] + lb + draw_ws[1])
    return "+".join(parts)


def side_vector(terms):
    d = {}
    for co, lb, _ in terms:
        d[lb] = d.get(lb, 0) + co
    return d


@st.composite
def eq_case(draw, max_order=None):
    labels = draw(st.lists(label_st, min_size=1, max_size=5, unique=True))
    sub = draw(side_st(labels, max_order=max_order))
    prod = draw(side_st(labels, max_order=max_order))
    ws = [draw(ws_st), draw(ws_st), draw(ws1_st), draw(ws_st), draw(ws_st)]
    text = ws[3] + render_side(ws, sub) + ws[4] + "->" + ws[3] + render_side(ws, prod) + ws[4]
    return {"labels": labels, "sub": sub, "prod": prod, "text": text,
            "form": draw(st.sampled_from(["str", "str", "dicts"])),
            "extra": draw(st.lists(label_st, max_size=2)), "perm": draw(st.permutations(list(range(len(labels)))))}


def classes_eq(c):
    cl = []
    for nm, side in (("sub", c["sub"]), ("prod", c["prod"])):
        if not side:
            cl.append("empty-side")
        labs = [t[1] for t in side]
        if len(set(labs)) < len(labs):
            cl.append("repeated-species")
        if any(t[0] == 0 for t in side):
            cl.append("zero-coefficient")
        if len(side) >= 2:
            cl.append("terms>=2")
        cl.append("order:%d" % min(sum(t[0] for t in side), 9))
    if any(ord(ch) > 127 for lb in c["labels"] for ch in lb):
        cl.append("non-ascii-label")
    return sorted(set(cl))


def build_reaction(c, **kw):
    if c["form"] == "dicts":
        # the two-dict form cannot express repeats: it carries the summed coefficients
        return S.Reaction([side_vector(c["sub"]), side_vector(c["prod"])], **kw)
    return S.Reaction(c["text"], **kw)


def check_vectors(r, c, what):
    q, p = side_vector(c["sub"]), side_vector(c["prod"])
    order = [c["labels"][i] for i in c["perm"]] + [e for e in c["extra"] if e not in c["labels"]]
    want_s = [q.get(lb, 0) for lb in order]
    want_p = [p.get(lb, 0) for lb in order]
    got_s = sut_call("ssto", r.ssto, order)
    got_p = sut_call("psto", r.psto, order)
    got_d = sut_call("dsto", r.dsto, order)
    if list(got_s) != want_s:
        raise Violation("%s: ssto%s = %s, expected %s for '%s'" % (what, order, list(got_s), want_s, c["text"]), key="sto:ssto")
    if list(got_p) != want_p:
        raise Violation("%s: psto%s = %s, expected %s for '%s'" % (what, order, list(got_p), want_p, c["text"]), key="sto:psto")
    if list(got_d) != [b - a for a, b in zip(want_s, want_p)]:
        raise Violation("%s: dsto = %s, expected products - reactants = %s" % (what, list(got_d), [b - a for a, b in zip(want_s, want_p)]), key="sto:dsto")
    if sut_call("order", r.order) != sum(q.values()) or sut_call("rorder", r.rorder) != sum(p.values()):
        raise Violation("%s: order/rorder = %s/%s, expected %s/%s" % (what, r.order(), r.rorder(), sum(q.values()), sum(p.values())), key="sto:order")
    subs, prods = r.substrates, r.products
    for lb in set(list(q) + list(p) + list(subs) + list(prods)):
        if subs.get(lb, 0) != q.get(lb, 0) or prods.get(lb, 0) != p.get(lb, 0):
            raise Violation("%s: substrates/products give %s:%s/%s, expected %s/%s" % (
                what, lb, subs.get(lb, 0), prods.get(lb, 0), q.get(lb, 0), p.get(lb, 0)), key="sto:dicts")
        if r.get_substrate_stoichiometry(lb) != q.get(lb, 0) or r.get_product_stoichiometry(lb) != p.get(lb, 0):
            raise Violation("%s: get_*_stoichiometry(%s) wrong" % (what, lb), key="sto:getters")


def strat_sto(ctx):
    return eq_case()


def check_sto(ctx, c):
    cl = classes_eq(c)
    nt = any(k in cl for k in ("repeated-species", "zero-coefficient", "empty-side")) or "terms>=2" in cl
    ctx.note(c, nt, cl + ["form:" + c["form"]])
    r = sut_call("Reaction(%r)" % (c["text"] if c["form"] == "str" else "dicts"), build_reaction, c)
    check_vectors(r, c, "parsed")
    text2 = sut_call("to_string", r.to_string)
    r2 = sut_call("Reaction(to_string()) %r" % text2, S.Reaction, text2)
    check_vectors(r2, c, "print->parse of %r" % text2)
    # a copy and a deep copy keep the stoichiometry
    check_vectors(r.copy(), c, "copy")


# ---- constants ---------------------------------------------------------------------------------------

sys_st = gen.us_any


def k_dim(n):
    return {"space": 3 * n - 3, "time": -1, "quantity": 1 - n}


@st.composite
def const_case(draw):
    c = draw(eq_case(max_order=8))
    c["sys"] = draw(sys_st)
    c["kf"] = draw(st.integers(1, 9999))
    c["kr"] = draw(st.integers(0, 9999))
    c["kform"] = draw(st.sampled_from(["bare", "str", "uv", "dict", "dict-uv"]))
    c["ksys"] = draw(sys_st)
    c["wrong_dim"] = draw(st.fixed_dictionaries({k: st.integers(-3, 3) for k in si.KINDS}))
    c["wrong_side"] = draw(st.sampled_from(["kf", "kr"]))
    c["wrong_form"] = draw(st.sampled_from(["str", "uv", "dict", "dict-uv"]))
    c["setter"] = draw(st.sampled_from(["ctor", "attr", "set_k"]))
    return c


def strat_const(ctx):
    return const_case()


def mk_const(val, form, sysd, dim, envs=("a", "default")):
    if form == "bare":
        return val
    ustr = si.unit_str(sysd, dim, 0)
    if form == "str":
        return ("%r %s" % (float(val), ustr)).strip()
    if form == "uv":
        return S.UnitValue(float(val), ustr)
    if form == "dict-uv":
        return {envs[0]: S.UnitValue(float(val), ustr), envs[1]: val}
    return {envs[0]: ("%r %s" % (float(val), ustr)).strip(), envs[1]: val}


def si_of_const(v):
    if isinstance(v, dict):
        return {k: si.si_value(q) for k, q in v.items()}
    return si.si_value(v)


def check_const(ctx, c):
    nf = sum(t[0] for t in c["sub"])
    nb = sum(t[0] for t in c["prod"])
    cl = classes_eq(c)
    nondefault = c["sys"] != si.DEFAULT_SYS
    ctx.note(c, (nf >= 2 or nb >= 2) and nondefault, cl + ["kform:" + c["kform"], "setter:" + c["setter"]])
    U = S.UnitsSystem(**c["sys"])
    dimf, dimb = k_dim(nf), k_dim(nb)
    kf_arg = mk_const(c["kf"], c["kform"], c["ksys"], dimf)
    kr_arg = mk_const(c["kr"], c["kform"], c["ksys"], dimb)
    if c["setter"] == "ctor":
        r = sut_call("Reaction(kf, kr)", build_reaction, c, kf=kf_arg, kr=kr_arg, units_system=U)
    else:
        r = sut_call("Reaction()", build_reaction, c, units_system=U)
        if c["setter"] == "attr":
            sut_call("r.kf = ...", setattr, r, "kf", kf_arg)
            sut_call("r.kr = ...", setattr, r, "kr", kr_arg)
        else:
            sut_call("set_k", r.set_k, kf_arg, kr_arg)
    for nm, got, val, dim, n in (("kf", r.kf, c["kf"], dimf, nf), ("kr", r.kr, c["kr"], dimb, nb)):
        gd = sut_call("k_units_dimensions", r.kf_units_dimensions if nm == "kf" else r.kr_units_dimensions)
        if si.dimdict(gd) != dim:
            raise Violation("%s_units_dimensions() = %s for order %d, expected %s" % (nm, si.dimdict(gd), n, dim), key="const:dimfn")
        items = got.items() if isinstance(got, dict) else [(None, got)]
        for key, q in items:
            if si.dimdict(q.units.dim) != dim:
                raise Violation("%s (order %d) stored with dimension %s, expected %s" % (nm, n, si.dimdict(q.units.dim), dim), key="const:dim")
            if c["kform"] == "bare" or (c["kform"] in ("dict", "dict-uv") and key == "default"):
                owner = c["sys"]
            else:
                owner = c["ksys"]
            want = F(val) * si.scale(owner, dim)
            if abs(si.si_value(q) - want) > F(1, 10 ** 12) * abs(want):
                raise Violation("%s = %r given as %s in %s: SI value %r, expected %r" % (
                    nm, val, c["kform"], owner, float(si.si_value(q)), float(want)), key="const:value")
        if c["kform"] in ("dict", "dict-uv") and set(got) != {"a", "default"}:
            raise Violation("per-environment %s has keys %s" % (nm, sorted(got)), key="const:keys")
    # a constant of any other dimension is refused
    wd = c["wrong_dim"]
    side_dim = dimf if c["wrong_side"] == "kf" else dimb
    if wd != side_dim:
        bad = mk_const(3, c["wrong_form"], c["ksys"], wd)
        if c["wrong_form"] in ("dict", "dict-uv"):
            bad = {"a": bad["a"]}
        r3 = sut_call("Reaction()", build_reaction, c, units_system=U)
        before = si_of_const(getattr(r3, c["wrong_side"]))
        must_raise("%s of order %d set to a quantity of dimension %s" % (c["wrong_side"], nf if c["wrong_side"] == "kf" else nb, wd),
                   setattr, r3, c["wrong_side"], bad)
        if si_of_const(getattr(r3, c["wrong_side"])) != before:
            raise Violation("a refused constant still changed %s" % c["wrong_side"], key="const:refused-but-changed")
        must_raise("Reaction(..., %s=<dimension %s>)" % (c["wrong_side"], wd), build_reaction, c,
                   **{c["wrong_side"]: bad, "units_system": U})


# ---- split and K -----------------------------------------------------------------------------------------

@st.composite
def split_case(draw):
    c = draw(eq_case(max_order=4))
    c["sys"] = draw(gen.us_mild)
    envs = ["a", "b", "default"]

    # magnitudes: mostly small integers, sometimes very small or very large numbers (a constant is zero only if it IS zero)
    num = st.one_of(st.integers(0, 999), st.integers(0, 999), st.sampled_from([1e-9, 2.5e-12, 1e-8, 7e-15, 1e-30, 3e12, 4e-6]))

    def val():
        keys = draw(st.lists(st.sampled_from(envs), max_size=3, unique=True))
        if not keys or draw(st.booleans()):
            return draw(num)
        return {k: draw(num) for k in keys}
    c["kf"] = val()
    c["kr"] = val()
    c["label"] = draw(st.sampled_from([None, "r1"]))
    # the constants are re-assigned afterwards (attribute setters or set_k) and everything is asked again
    c["again"] = draw(st.one_of(st.none(), st.fixed_dictionaries({"kf": st.just(0), "kr": st.just(0), "via": st.sampled_from(["attr", "set_k"])})))
    if c["again"] is not None:
        c["again"]["kf"], c["again"]["kr"] = val(), val()
    return c


def strat_split(ctx):
    return split_case()


def lookup(v, env):
    if isinstance(v, dict):
        if env in v:
            return v[env]
        if "default" in v:
            return v["default"]
        return 0
    return v


def check_split(ctx, c):
    nf = sum(t[0] for t in c["sub"])
    nb = sum(t[0] for t in c["prod"])
    cl = classes_eq(c)
    ctx.note(c, isinstance(c["kf"], dict) or isinstance(c["kr"], dict) or nf >= 2,
             cl + ["kf:" + type(c["kf"]).__name__, "kr:" + type(c["kr"]).__name__])
    U = S.UnitsSystem(**c["sys"])
    r = sut_call("Reaction", build_reaction, c, kf=c["kf"], kr=c["kr"], label=c["label"], units_system=U)
    split_and_K(c, r, nf, nb)
    ag = c.get("again")
    if ag is not None:
        if ag["via"] == "attr":
            sut_call("r.kf = ...", setattr, r, "kf", ag["kf"])
            sut_call("r.kr = ...", setattr, r, "kr", ag["kr"])
        else:
            sut_call("set_k", r.set_k, ag["kf"], ag["kr"])
        ctx.count("split:constants-reassigned")
        try:
            split_and_K(dict(c, kf=ag["kf"], kr=ag["kr"]), r, nf, nb)
        except Violation as e:
            raise Violation("after the constants were re-assigned (%s) from kf=%r kr=%r to kf=%r kr=%r: %s" % (
                ag["via"], c["kf"], c["kr"], ag["kf"], ag["kr"], e), key=e.key + ":reassigned")


def split_and_K(c, r, nf, nb):
    fwd, rev = sut_call("split", r.split)
    check_vectors(fwd, c, "split()[0]")
    swapped = dict(c, sub=c["prod"], prod=c["sub"])
    check_vectors(rev, swapped, "split()[1]")
    for nm, part, src, dim in (("forward", fwd, c["kf"], k_dim(nf)), ("reverse", rev, c["kr"], k_dim(nb))):
        if part.label is not None:
            raise Violation("split() %s part keeps label %r" % (nm, part.label), key="split:label")
        if si.sysdict(part.units_system) != c["sys"]:
            raise Violation("split() %s part has units system %s" % (nm, si.sysdict(part.units_system)), key="split:units")
        krv = part.kr
        if isinstance(krv, dict) or krv.value != 0:
            raise Violation("split() %s part has kr = %s" % (nm, krv), key="split:kr")
        for env in ("a", "b", "zzz"):
            got = part.kf[env] if isinstance(part.kf, dict) and env in part.kf else (
                part.kf.get("default") if isinstance(part.kf, dict) else part.kf)
            want = F(lookup(src, env)) * si.scale(c["sys"], dim)
            g = si.si_value(got) if got is not None else F(0)
            if abs(g - want) > F(1, 10 ** 12) * abs(want):
                raise Violation("split() %s constant in environment %r: SI %r, expected %r" % (nm, env, float(g), float(want)), key="split:k")
    K = sut_call("K", lambda: r.K)
    K2 = sut_call("equilibrium_constant", r.equilibrium_constant)
    dimK = {k: k_dim(nf)[k] - k_dim(nb)[k] for k in si.KINDS}

    def check_K(got, env):
        kf_, kr_ = lookup(c["kf"], env), lookup(c["kr"], env)
        if kr_ == 0:
            if got is not None:
                raise Violation("K[%r] = %s although kr = 0 there" % (env, got), key="K:none")
            return
        if got is None:
            raise Violation("K[%r] is None although kr = %r" % (env, kr_), key="K:missing")
        if si.dimdict(got.units.dim) != dimK:
            raise Violation("K has dimension %s, expected %s" % (si.dimdict(got.units.dim), dimK), key="K:dim")
        want = F(kf_) / F(kr_) * si.scale(c["sys"], dimK)
        if abs(si.si_value(got) - want) > F(1, 10 ** 9) * abs(want):
            raise Violation("K[%r] = %r (SI), kf/kr = %r" % (env, float(si.si_value(got)), float(want)), key="K:value")

    for KK in (K, K2):
        if isinstance(c["kf"], dict) or isinstance(c["kr"], dict):
            if not isinstance(KK, dict):
                raise Violation("K is not per-environment although a constant is", key="K:type")
            keys = set(list(c["kf"]) if isinstance(c["kf"], dict) else []) | set(list(c["kr"]) if isinstance(c["kr"], dict) else []) | {"default"}
            if set(KK) != keys:
                raise Violation("K has keys %s, expected %s" % (sorted(KK), sorted(keys)), key="K:keys")
            for env in keys:
                check_K(KK[env], env)
        else:
            check_K(KK, "a")


# ---- network validity -------------------------------------------------------------------------------------

@st.composite
def net_case(draw):
    c = draw(eq_case())
    c["fault"] = draw(st.sampled_from(["none", "undeclared-substrate", "undeclared-product", "dup-species", "dup-reaction-label"]))
    c["pick"] = draw(st.integers(0, 100))
    return c


def strat_net(ctx):
    return net_case()


def check_net(ctx, c):
    labels = list(c["labels"])
    used = {t[1] for t in c["sub"]} | {t[1] for t in c["prod"]}
    fault = c["fault"]
    sub_used = sorted({t[1] for t in c["sub"]})
    prod_used = sorted({t[1] for t in c["prod"]})
    if fault == "undeclared-substrate" and not sub_used:
        fault = "none"
    if fault == "undeclared-product" and not prod_used:
        fault = "none"
    ctx.note(c, fault != "none", ["network:" + fault] + classes_eq(c))

    def species(lbls):
        return [S.Species(lb) for lb in lbls]
    r = sut_call("Reaction", build_reaction, c, label="r1")
    # the fault-free twin is accepted
    net = sut_call("RDNetwork (valid)", S.RDNetwork, species(labels), [r, S.Reaction(c["text"], label="r2")])
    if net.nspecies() != len(labels) or net.nreactions() != 2:
        raise Violation("valid network has %d species / %d reactions" % (net.nspecies(), net.nreactions()), key="network:valid")
    if net.species_labels() != labels:
        raise Violation("species_labels() = %s" % net.species_labels(), key="network:labels")
    for i, lb in enumerate(labels):
        if net.get_species_index(lb) != i or net.get_species_index(i) != i or net.get_species_index(net.species[i]) != i:
            raise Violation("get_species_index(%r) wrong" % lb, key="network:index")
    if fault == "undeclared-substrate":
        missing = sub_used[c["pick"] % len(sub_used)]
        must_raise("RDNetwork without species %r used as reactant" % missing, S.RDNetwork,
                   species([lb for lb in labels if lb != missing]) or [S.Species(missing + "_other")], [r])
    elif fault == "undeclared-product":
        missing = prod_used[c["pick"] % len(prod_used)]
        must_raise("RDNetwork without species %r used as product" % missing, S.RDNetwork,
                   species([lb for lb in labels if lb != missing]) or [S.Species(missing + "_other")], [r])
    elif fault == "dup-species":
        dup = labels[c["pick"] % len(labels)]
        must_raise("RDNetwork with species label %r twice" % dup, S.RDNetwork, species(labels + [dup]), [r])
    elif fault == "dup-reaction-label":
        must_raise("RDNetwork with reaction label 'r1' twice", S.RDNetwork, species(labels),
                   [r, S.Reaction(c["text"], label="r1")])


# ---- thorough tier: coverage-guided campaign (Atheris) with the reference oracle inside the target ----------

def enum_atheris(ctx):
    if ctx.tier != "thorough":
        return
    yield {"corpus": "empty", "runs": 1500000, "seed": ctx.seed}
    yield {"corpus": "empty", "runs": 1500000, "seed": ctx.seed + 1000}


def check_atheris(ctx, c):
    from vlib import atheris_run
    if not atheris_run.available():
        ctx.skip("atheris is not installed (setup.sh could not install it)")
        return
    execs, fail = atheris_run.campaign("equation_fuzz.py", c["runs"], c["seed"], prop="C19")
    ctx.note(c, True, ["atheris"])
    ctx.count("atheris_executions", execs)
    if fail:
        raise Violation("Atheris (%d executions): %s ; input saved as %s (re-run: %s)" % (execs, fail["message"], fail["artifact"], fail["rerun"]),
                        key="atheris")


RULE = RULE + " " + ('Since seeded round 5 constants also come as UnitValue objects inside per-environment dictionaries (right and wrong dimension), split_K draws very small and very large magnitudes (1e-30 .. 3e12: a constant is zero only if it is zero) and re-assigns the constants after K and split were read.')

FACETS = [
    Facet("stoichiometry", check_sto, strategy=strat_sto, examples=(6000, 200000), shards=(8, 16)),
    Facet("constants", check_const, strategy=strat_const, examples=(4000, 100000), shards=(8, 16)),
    Facet("split_K", check_split, strategy=strat_split, examples=(3000, 80000), shards=(8, 16)),
    Facet("network", check_net, strategy=strat_net, examples=(3000, 60000), shards=(4, 16)),
    Facet("atheris", check_atheris, enumerate=enum_atheris, shards=(2, 2)),
]
