"""C10 Simulations terminate, and the engine lifecycle is crash-free and isolated."""
import itertools
import math
import struct
from fractions import Fraction as F

from hypothesis import strategies as st

from vlib import child, gen, si
from vlib.ratelaw import Model
from vlib.runner import Facet, Violation, HarnessError
from vlib import sut  # noqa: F401

PROPERTY = "C10"
RULE = ("exhaustive: every call sequence of length <= 5 (thorough tier: <= 6) over the 10 concrete lifecycle calls {setup(s0), "
        "setup(s1), iterate, iterate_n(3), run(0), sample, get_progress, is_complete, get_output, "
        "finalize} on one Euler engine that respects the lifecycle grammar (first call a setup; after "
        "finalize only finalize or setup), executed in a sandboxed child and compared call by call with a "
        "lifecycle reference model (iteration counter with the engine's float accumulation, completion "
        "flag, sticky completion, record list, progress 100 t/t_max, |n* - ceil(t_max/dt)| <= 1, outputs "
        "bit-identical to the clean-room trajectory, repeated get_output identical, finalize any number of "
        "times then a set-up that behaves as in a fresh process). termination: fixed-step runs (both engines, both space types, t_max = 0 / multiples / non-multiples / default, three unit systems) report completion exactly at the first step beyond t_max. random: Hypothesis histories of length <= "
        "40 over two engine objects of any kind (scripts incl. species totals below one molecule, empty "
        "states, t_max not a multiple of dt, run-to-completion loops): every call returns (hang bound), no "
        "crash, and every object returns exactly what the same calls return when that object is driven "
        "alone in a fresh process (independence / clean slate). Non-trivial: a re-setup after completion, a "
        "double finalize, or calls on two objects; >= 1 iteration executed.")
ASSUMPTIONS = ["calls other than finalize / setup on a finalized engine are outside the documented lifecycle",
               "run(ms > 0) is only used in run-to-completion loops (its slicing depends on the wall clock)",
               "known finding D14: engine objects share one native simulation; histories that touch an object "
               "after another object has been set up are generated only in the probe, and counted as excluded"]
EXHAUSTIVE_PART = "facet 'exhaustive': all grammar-respecting call sequences of length <= 5 (quick) / <= 6 (thorough) over 10 concrete calls on one engine"
DEF_US = {"space": "µm", "time": "s", "quantity": "molecule"}


def bits(x):
    return struct.pack("<d", float(x))


def lvl():
    return {"mode": "omit", "sys": dict(DEF_US)}


def q(x):
    return {"si": gen.fs(x), "form": "bare", "sys": dict(DEF_US), "style": 0}


def tiny_system(kind="grid", ncell=2, vals=(40, 0, 0, 7), two_species=True):
    um3 = F(1, 10 ** 18)
    if kind == "grid":
        sp = {"type": "grid", "units": lvl(), "w": ncell, "h": 1, "d": 1, "bc": {}, "cell_env": [0] * ncell,
              "cell_env_form": "list", "cell_vol": q(um3)}
    else:
        sp = {"type": "graph", "units": lvl(), "nodes": [{"units": lvl(), "vol": q(um3 * (i + 1)), "env": 0} for i in range(ncell)],
              "edges": [{"units": lvl(), "i": i, "j": i + 1, "sfc": q(F(1, 10 ** 12)), "dst": q(F(1, 10 ** 6))} for i in range(ncell - 1)]}
    labels = ["A", "B"] if two_species else ["A"]
    species = [{"label": lb, "units": lvl(), "D": q(F(1, 10 ** 12)), "density": q(0), "chstt": False} for lb in labels]
    reactions = [{"sub": {"A": 1}, "prod": {"B": 1}, "units": lvl(), "kf": q(1), "kr": q(F(1, 2)), "label": None, "eq_form": "str"}] if two_species else []
    return {"env": [""], "sys_units": lvl(), "net_units": lvl(), "space": sp, "species": species, "reactions": reactions,
            "state": {"values": [gen.fs(v) for v in vals], "units": "molecule"}, "chemostats": None}


S0 = {"sys": tiny_system("grid", 2, (40, 0, 0, 7)), "route": "ctor", "units": dict(DEF_US), "t_sample": [0.0, 0.5],
      "time_step": 0.125, "t_max": None, "policy": "on_iteration", "interval": 1.0, "seed": 1, "mode": "auto"}
S1 = {"sys": tiny_system("graph", 3, (5, 6, 7, 0, 1, 2)), "route": "ctor", "units": dict(DEF_US), "t_sample": [0.0, 0.1, 0.3, 0.3, 0.9],
      "time_step": 0.2, "t_max": 0.7, "policy": "on_t_sample", "interval": 1.0, "seed": 2, "mode": "none"}
SCRIPTS = [S0, S1]
CALLS = [("setup", 0), ("setup", 1), ("iterate",), ("iterate_n", 3), ("run", 0), ("sample",), ("progress",), ("complete",),
         ("output",), ("finalize",)]

_state = {}


def setup(ctx):
    from vlib import build
    build.engine_path("plain")


def get_child():
    if "c" not in _state:
        _state["c"] = child.Child("plain")
    return _state["c"]


def reference(script_index):
    """clean-room on_iteration trajectory of SCRIPTS[i] run to completion: list of (t, state)"""
    key = ("ref", script_index)
    if key not in _state:
        sc = dict(SCRIPTS[script_index], policy="on_iteration")
        job = {"scripts": [sc], "calls": [["new", "E", "euler"], ["setup", "E", 0]] + [["iterate", "E"]] * 12 + [["output", "E"], ["finalize", "E"]]}
        st_, rep = child.one_shot(job, "plain", 60.0)
        if st_ != "ok" or rep.get("error"):
            raise HarnessError("reference run failed: %s %s" % (st_, rep))
        o = rep["results"][-2]["r"]
        n = len(o["data"]) // len(o["t"])
        _state[key] = [(o["t"][k], o["data"][k * n:(k + 1) * n]) for k in range(len(o["t"]))]
    return _state[key]


class LifeModel:
    """Reference state machine of one engine object driving a fixed-step script."""

    def __init__(self):
        self.alive = False

    def setup(self, sc):
        self.sc = sc
        self.dt = sc["time_step"]
        self.ts = list(sc["t_sample"])
        self.tmax = sc["t_max"] if sc["t_max"] is not None else self.ts[-1]
        self.policy = sc["policy"]
        self.interval = sc["interval"]
        self.t, self.k, self.complete_native, self.pos, self.last = 0.0, 0, False, 0, -1.0
        self.flag = False
        self.records = []
        self.py_complete = False
        self.alive = True
        self._sampling_step()

    def _sample(self):
        if not self.flag:
            self.records.append(self.k)
            self.flag = True

    def _sampling_step(self):
        if self.policy == "on_t_sample":
            while self.pos < len(self.ts) and self.t >= self.ts[self.pos]:
                self._sample()
                self.pos += 1
        elif self.policy == "on_iteration":
            self._sample()
        elif self.policy == "on_interval":
            r = math.floor(self.t / self.interval)
            if r > self.last:
                self._sample()
                self.last = r

    def _iter(self):
        self.flag = False
        if self.complete_native:
            return False
        self.k += 1
        self.t += self.dt
        self._sampling_step()
        if self.tmax >= 0 and self.t > self.tmax:
            self.complete_native = True
        return not self.complete_native

    def iterate(self):
        r = self._iter()
        self.py_complete = not r
        return r

    def iterate_n(self, n):
        # zero iterations change nothing: in particular a completed simulation stays completed (the model used to
        # mirror the implementation here, which reports "unfinished" after iterate_n(0) on a completed run)
        r = not self.complete_native
        for _ in range(n):
            r = self._iter()
            if not r:
                break
        self.py_complete = not r
        return r

    def sample(self):
        self._sample()

    def progress(self):
        return 100.0 * self.t / self.tmax if self.tmax > 0 else 0.0


def grammar_ok(h):
    if not h or CALLS[h[0]][0] != "setup":
        return False
    fin = False
    for c in h:
        op = CALLS[c][0]
        if fin and op not in ("finalize", "setup"):
            return False
        fin = (op == "finalize") if op in ("finalize", "setup") else fin
    return True


def enum_histories(ctx):
    for L in range(1, 7 if ctx.tier == "thorough" else 6):
        for h in itertools.product(range(len(CALLS)), repeat=L):
            if grammar_ok(h):
                yield {"h": list(h)}


def check_exhaustive(ctx, c):
    h = c["h"]
    ops = [CALLS[i] for i in h]
    names = [o[0] for o in ops]
    resetup = any(names[i] == "setup" and "setup" in names[:i] for i in range(len(names)))
    dblfin = any(names[i] == "finalize" and names[i - 1] == "finalize" for i in range(1, len(names)))
    iterated = any(o in ("iterate", "iterate_n", "run") for o in names)
    ctx.note(c, (resetup or dblfin) and iterated, ["len:%d" % len(h)] + (["re-setup"] if resetup else []) + (["double-finalize"] if dblfin else []))
    calls = [["new", "E", "euler"]]
    for o in ops:
        calls.append([o[0], "E"] + list(o[1:]))
    calls.append(["finalize", "E"])
    text = " ; ".join("%s%s" % (o[0], "(%s)" % ",".join(map(str, o[1:])) if len(o) > 1 else "()") for o in ops)
    st_, rep = get_child().run({"scripts": SCRIPTS, "calls": calls}, timeout=30.0)
    if st_ == "timeout":
        st_, rep = child.one_shot({"scripts": SCRIPTS, "calls": calls}, "plain", 90.0)
        if st_ == "timeout":
            raise Violation("history [%s] did not return within 90 s" % text, key="hang")
    if st_ == "died":
        raise Violation("history [%s]: the process died with signal %s" % (text, rep.get("signal")), key="crash")
    if rep.get("error"):
        raise HarnessError(rep["error"])
    res = rep["results"][1:-1]
    m = LifeModel()
    last_out = None
    cur = None
    for o, r in zip(ops, res):
        if "exc" in r:
            raise Violation("history [%s]: %s raised %s" % (text, o[0], r["exc"]), key="exception")
        got = r["r"]
        op = o[0]
        if op == "setup":
            m.setup(SCRIPTS[o[1]])
            cur = o[1]
            last_out = None
        elif op in ("iterate", "run"):
            want = m.iterate()
            if got != want:
                raise Violation("history [%s]: %s returned %r, model %r (iteration %d, t=%r, t_max=%r)" % (text, op, got, want, m.k, m.t, m.tmax), key="returns")
            last_out = None
        elif op == "iterate_n":
            want = m.iterate_n(o[1])
            if got != want:
                raise Violation("history [%s]: iterate_n(%d) returned %r, model %r" % (text, o[1], got, want), key="returns")
            last_out = None
        elif op == "sample":
            m.sample()
            last_out = None
        elif op == "progress":
            want = m.progress()
            if abs(got - want) > 1e-9 * abs(want) + 1e-12:
                raise Violation("history [%s]: get_progress() = %r, model %r (refers to another set-up?)" % (text, got, want), key="progress")
        elif op == "complete":
            if got != m.py_complete:
                raise Violation("history [%s]: is_complete() = %r, model %r" % (text, got, m.py_complete), key="is_complete")
        elif op == "output":
            ref = reference(cur)
            want_t = [ref[k][0] for k in m.records]
            want_d = [v for k in m.records for v in ref[k][1]]
            if [bits(v) for v in got["t"]] != [bits(v) for v in want_t]:
                raise Violation("history [%s]: output times %s, model %s" % (text, got["t"], want_t), key="output:t")
            if [bits(v) for v in got["data"]] != [bits(v) for v in want_d]:
                raise Violation("history [%s]: output data differ from the clean-room trajectory at iterations %s" % (text, m.records), key="output:data")
            if last_out is not None and last_out != got:
                raise Violation("history [%s]: two consecutive get_output() differ" % text, key="output:repeat")
            last_out = got
        elif op == "finalize":
            pass
    # termination: the fixed-step run completes after ceil(t_max/dt) steps, give or take one
    for sc in SCRIPTS:
        mm = LifeModel()
        mm.setup(sc)
        n = 0
        while mm.iterate() and n < 10 ** 4:
            n += 1
        nstar = mm.k
        if abs(nstar - math.ceil(mm.tmax / mm.dt)) > 1:
            raise HarnessError("model: n* = %d vs ceil = %d" % (nstar, math.ceil(mm.tmax / mm.dt)))


# ---- random histories over two engine objects ---------------------------------------------------------

@st.composite
def script_st(draw):
    kind = draw(st.sampled_from(["grid", "graph"]))
    ncell = draw(st.integers(1, 4))
    two = draw(st.booleans())
    ns = 2 if two else 1
    regime = draw(st.sampled_from(["normal", "sub-molecule", "zero", "normal"]))
    vals = []
    for _ in range(ns * ncell):
        if regime == "zero":
            vals.append(F(0))
        elif regime == "sub-molecule":
            vals.append(F(draw(st.integers(0, 30)), 128))
        else:
            vals.append(F(draw(st.integers(0, 400)), 4))
    mode = draw(st.sampled_from(["auto", "auto", "none", "redist", "Poisson"]))
    if mode == "none":
        # without resampling a stochastic engine must be given whole molecules: fractional amounts make its
        # propensities negative after the first hop (time then runs backwards) -- a user error, not a valid script
        vals = [F(round(v)) for v in vals]
    dt = draw(st.sampled_from([0.125, 0.1, 0.03, 0.25]))
    nst = draw(st.integers(1, 12))
    tmax = draw(st.sampled_from([None, dt * nst, dt * nst + dt / 3, dt * nst - dt / 7]))
    ts = sorted(draw(st.lists(st.integers(0, 16), min_size=1, max_size=4)))
    units = dict(DEF_US)
    if draw(st.integers(0, 2)) == 0:
        # the script's own space / quantity unit (time stays s: the bare time numbers above are seconds)
        units = {"space": draw(st.sampled_from(si.SPACE_SYMS)), "time": "s", "quantity": draw(st.sampled_from(si.QUANTITY_SYMS))}
    return {"sys": tiny_system(kind, ncell, vals, two), "route": "ctor", "units": units,
            "t_sample": [v * dt * 0.75 for v in ts], "time_step": dt, "t_max": tmax,
            "policy": draw(st.sampled_from(["on_t_sample", "on_iteration", "on_interval", "no_sampling"])),
            "interval": dt * 2.5, "seed": draw(st.integers(0, 2 ** 32 - 1)),
            "mode": mode}


@st.composite
def random_history(draw):
    scripts = [draw(script_st()) for _ in range(draw(st.integers(1, 3)))]
    kinds = [draw(st.sampled_from(["euler", "gillespie", "tauleap"])) for _ in range(2)]
    n = draw(st.integers(2, 40))
    calls = []
    state = {0: "new", 1: "new"}      # new | live | finalized
    current = None                    # the object set up last (the only one that may be operated: D14)
    for _ in range(n):
        e = draw(st.integers(0, 1))
        if state[e] == "new" or (state[e] == "finalized" and draw(st.integers(0, 2)) > 0) or (current is not None and current != e):
            # only setup (or a repeated finalize) is allowed on an object that is not the current one
            if state[e] == "finalized" and draw(st.integers(0, 3)) == 0:
                # finalize again: allowed at any point, but with a shared native simulation it would
                # release the other object's run -- only generated when no other object is live
                other = 1 - e
                if state[other] != "live":
                    calls.append(["finalize", e])
                    continue
            calls.append(["setup", e, draw(st.integers(0, len(scripts) - 1))])
            if current is not None and current != e and state[current] == "live":
                state[current] = "abandoned"
            state[e] = "live"
            current = e
            continue
        if state[e] == "finalized":
            calls.append(["finalize", e])
            continue
        op = draw(st.sampled_from(["iterate", "iterate", "iterate_n", "run0", "run_to_completion", "sample", "progress", "complete",
                                   "output", "finalize", "setup"]))
        if op == "iterate_n":
            calls.append(["iterate_n", e, draw(st.sampled_from([0, 0, 1, 2, 3, 5, 7]))])
        elif op == "run0":
            calls.append(["run", e, 0])
        elif op == "setup":
            calls.append(["setup", e, draw(st.integers(0, len(scripts) - 1))])
        elif op == "finalize":
            calls.append(["finalize", e])
            state[e] = "finalized"
        else:
            calls.append([op, e])
    return {"scripts": scripts, "kinds": kinds, "calls": calls}


def to_job(c, only=None):
    calls = []
    for e in (0, 1):
        if only is None or only == e:
            calls.append(["new", "E%d" % e, c["kinds"][e]])
    idx = []
    for k, call in enumerate(c["calls"]):
        op, e = call[0], call[1]
        if only is not None and e != only:
            continue
        name = "E%d" % e
        if op == "run_to_completion":
            calls.append(["run_loop", name])
        else:
            calls.append([op, name] + list(call[2:]))
        idx.append(k)
    return {"scripts": c["scripts"], "calls": calls}, idx


def strat_random(ctx):
    return random_history()


def run_job(job, text, timeout=60.0):
    st_, rep = get_child().run(job, timeout=timeout)
    if st_ == "timeout":
        st_, rep = child.one_shot(job, "plain", 180.0)
        if st_ == "timeout":
            raise Violation("history [%s] did not return within 180 s (hang)" % text, key="hang")
    if st_ == "died":
        raise Violation("history [%s]: the process died with signal %s %s" % (text, rep.get("signal"), rep.get("stderr", "")[-200:]), key="crash")
    if rep.get("error"):
        raise HarnessError(rep["error"])
    return rep["results"]


def check_random(ctx, c):
    names = [x[0] for x in c["calls"]]
    objs = {x[1] for x in c["calls"]}
    seen_setup = {0: 0, 1: 0}
    resetup = False
    for x in c["calls"]:
        if x[0] == "setup":
            seen_setup[x[1]] += 1
            if seen_setup[x[1]] >= 2:
                resetup = True
    dblfin = any(c["calls"][i][0] == "finalize" and c["calls"][i - 1][0] == "finalize" and c["calls"][i][1] == c["calls"][i - 1][1]
                 for i in range(1, len(c["calls"])))
    iterated = any(n in ("iterate", "iterate_n", "run", "run_to_completion") for n in names)
    ctx.note(c, (resetup or dblfin or len(objs) == 2) and iterated,
             ["objects:%d" % len(objs)] + (["re-setup"] if resetup else []) + (["double-finalize"] if dblfin else []) +
             ["kind:" + k for k in set(c["kinds"])] + (["sub-molecule-state"] if any(any(0 < F(v) < 1 for v in s["sys"]["state"]["values"]) for s in c["scripts"]) else []))
    text = " ; ".join("E%d.%s%s" % (x[1], x[0], "(%s)" % ",".join(map(str, x[2:])) if len(x) > 2 else "()") for x in c["calls"])
    job, idx = to_job(c)
    res = run_job(job, text)
    res = res[2:]
    for x, r in zip(c["calls"], res):
        if "exc" in r:
            raise Violation("history [%s]: E%d.%s raised %s" % (text, x[1], x[0], r["exc"]), key="exception")
    # independence / clean slate: each object alone, in a fresh process, returns the same values
    for e in sorted(objs):
        solo_job, solo_idx = to_job(c, only=e)
        st_, rep = child.one_shot(solo_job, "plain", 180.0)
        if st_ == "timeout":
            raise Violation("history [%s] restricted to E%d did not return within 180 s" % (text, e), key="hang")
        if st_ == "died":
            raise Violation("history [%s] restricted to E%d: process died with signal %s" % (text, e, rep.get("signal")), key="crash")
        if rep.get("error"):
            raise HarnessError(rep["error"])
        solo = rep["results"][1:]
        for k, r2 in zip(solo_idx, solo):
            r1 = res[k]
            a, b = r1.get("r"), r2.get("r")
            if "exc" in r2:
                raise Violation("history restricted to E%d: %s raised %s" % (e, c["calls"][k][0], r2["exc"]), key="exception")
            if isinstance(a, dict) and isinstance(b, dict):
                a = {kk: vv for kk, vv in a.items()}
                b = {kk: vv for kk, vv in b.items()}
            if a != b:
                raise Violation("history [%s]: call %d (E%d.%s) returned %s, but %s when E%d is driven alone in a fresh process" % (
                    text, k, e, c["calls"][k][0], _short(a), _short(b), e), key="independence")
    ctx.count("calls", len(c["calls"]))


def _short(x):
    s = repr(x)
    return s if len(s) < 160 else s[:160] + "..."


# ---- termination of fixed-step runs -----------------------------------------------------------------------

def strat_term(ctx):
    return st.fixed_dictionaries({
        "space": st.sampled_from(["grid", "graph"]), "kind": st.sampled_from(["euler", "tauleap"]), "cells": st.integers(1, 3),
        "dt": st.sampled_from([0.125, 0.1, 0.03, 0.25, 1e-3]),      # numerically stable for the tiny system (rates ~ 1 / s)
        "tmax_steps": st.sampled_from([0.0, 0.0, 1.0, 2.0, 5.0, 0.5, 3.25, 7.999, 12.0, 1e-9]),
        "tmax_mode": st.sampled_from(["explicit", "explicit", "default"]),
        "policy": st.sampled_from(["on_t_sample", "on_iteration", "on_interval", "no_sampling"]),
        "units": st.sampled_from([dict(DEF_US), {"space": "µm", "time": "ms", "quantity": "molecule"}, {"space": "m", "time": "ms", "quantity": "mol"}]),
        "seed": st.integers(0, 2 ** 32 - 1)})


def check_term(ctx, c):
    """A fixed-step run performs the steps n dt up to the first one beyond t_max, then reports completion,
    i.e. after ceil(t_max/dt) steps give or take one -- whatever the space type, also for t_max = 0."""
    vals = [40, 3, 9][:c["cells"]] + [0, 1, 2][:c["cells"]]
    sc = {"sys": tiny_system(c["space"], c["cells"], vals), "route": "ctor", "units": c["units"],
          "t_sample": [0.0, c["tmax_steps"] * c["dt"]] if c["tmax_mode"] == "default" else [0.0],
          "time_step": c["dt"], "t_max": None if c["tmax_mode"] == "default" else c["tmax_steps"] * c["dt"],
          "policy": c["policy"], "interval": c["dt"] * 2.5, "seed": c["seed"], "mode": "none"}
    tmax = c["tmax_steps"] * c["dt"]
    t, n_model = 0.0, 0
    while True:
        n_model += 1
        t += c["dt"]
        if t > tmax:
            break
    if abs(n_model - math.ceil(tmax / c["dt"])) > 1:
        raise HarnessError("model n* %d vs ceil %d" % (n_model, math.ceil(tmax / c["dt"])))
    ctx.note(c, True, ["termination:" + c["space"], "termination:" + c["kind"], "t_max=0" if tmax == 0 else "t_max>0", "t_max:" + c["tmax_mode"]])
    cap = n_model + 3
    # ... and stays completed: a batch of zero iterations, then of two, then a single one report "finished" as well
    after = [["iterate_n", "E", 0], ["complete", "E"], ["iterate_n", "E", 2], ["complete", "E"], ["iterate", "E"], ["complete", "E"]]
    calls = ([["new", "E", c["kind"]], ["setup", "E", 0]] + [["iterate", "E"]] * cap + [["complete", "E"]] + after[:0] + [["output", "E"]] + after +
             [["output", "E"], ["finalize", "E"],
              # the package's own driver loop on the same script, silent and with the progress display: both return, with the same records
              ["simulate", "E", 0, False], ["simulate", "E", 0, True]])
    res = run_job({"scripts": [sc], "calls": calls}, "termination run")
    out_before, out_after = res[3 + cap]["r"], res[4 + cap + len(after)]["r"]
    res = res[:3 + cap] + res[4 + cap:]          # (drop the first output: the indices below are those of the plain history)
    rets = [r["r"] for r in res[2:2 + cap]]
    if True in rets[n_model - 1:] or rets[:n_model - 1] != [True] * (n_model - 1):
        first = rets.index(False) + 1 if False in rets else None
        raise Violation("%s on a %s, dt=%r, t_max=%r (%s): iterate() first reports completion after %s steps, expected %d = first step beyond t_max "
                        "(ceil(t_max/dt) = %d)" % (c["kind"], c["space"], c["dt"], tmax, c["tmax_mode"], first if first else "> %d" % cap, n_model,
                                                   math.ceil(tmax / c["dt"])), key="termination")
    if res[2 + cap]["r"] is not True:
        raise Violation("is_complete() is %r after the run completed" % res[2 + cap]["r"], key="termination:is_complete")
    for k, call in enumerate(after):
        got = res[3 + cap + k]["r"]
        want = True if call[0] == "complete" else False
        if got is not want:
            what = "is_complete()" if call[0] == "complete" else "%s(%s)" % (call[0], ",".join(map(str, call[2:])))
            raise Violation("%s on a %s: a completed simulation does not stay completed: after [%s] %s returns %r" % (
                c["kind"], c["space"], " ; ".join("%s(%s)" % (x[0], ",".join(map(str, x[2:]))) for x in after[:k]), what, got),
                key="termination:stays-complete")
    if out_before != out_after:
        raise Violation("%s on a %s, policy %s: iterating a completed simulation changed its output: %d records before, %d after [%s]" % (
            c["kind"], c["space"], c["policy"], len(out_before["t"]), len(out_after["t"]),
            " ; ".join("%s(%s)" % (x[0], ",".join(map(str, x[2:]))) for x in after)), key="termination:output-changed")
    n_tail = len(res)
    sim_silent, sim_progress = res[n_tail - 2], res[n_tail - 1]
    for nm, r_ in (("print_progress=False", sim_silent), ("print_progress=True", sim_progress)):
        if "exc" in r_:
            raise Violation("simulate_script(%s) raised %s" % (nm, r_["exc"]), key="termination:simulate-exception")
    a_, b_ = sim_silent["r"], sim_progress["r"]
    if a_["t"] != b_["t"] or (c["kind"] == "euler" and a_["data"] != b_["data"]):
        raise Violation("%s on a %s: simulate_script records %d samples silently and %d with print_progress=True (times %s vs %s)" % (
            c["kind"], c["space"], len(a_["t"]), len(b_["t"]), a_["t"][:6], b_["t"][:6]), key="termination:simulate-progress")
    if a_["t"] != out_before["t"] and c["policy"] != "no_sampling":
        raise Violation("%s on a %s, policy %s: simulate_script records times %s, the same script driven by iterate() until completion %s" % (
            c["kind"], c["space"], c["policy"], a_["t"][:8], out_before["t"][:8]), key="termination:simulate-vs-iterate")


# ---- known finding D14: engine objects share one native simulation --------------------------------------

def probe_shared_simulation():
    """E0.setup(a); E1.setup(b); E0.get_output() -> returns b's data. True if it still reproduces."""
    job = {"scripts": [S0, dict(S1, policy="on_iteration")],
           "calls": [["new", "E0", "euler"], ["new", "E1", "euler"], ["setup", "E0", 0], ["iterate", "E0"], ["output", "E0"],
                     ["setup", "E1", 1], ["output", "E0"], ["finalize", "E1"]]}
    st_, rep = child.one_shot(job, "plain", 60.0)
    if st_ != "ok" or rep.get("error"):
        return True   # crashes are the same finding
    r = rep["results"]
    if "exc" in r[6]:
        return True
    before, after = r[4]["r"], r[6]["r"]
    return before != after


KNOWN_PROBES = {"shared_native_simulation": probe_shared_simulation}
KNOWN_MATCHERS = {"shared_native_simulation": lambda v: False}


RULE = RULE + " " + ("Since seeded round 5 the termination facet continues every completed run with iterate_n(0) ; is_complete ; iterate_n(2) ; is_complete ; iterate ; is_complete (all must report completion) between two get_output calls (equal), and runs the package's own driver loop simulate_script on the same script silently and with print_progress=True (both return within the time-out, with the same record times as the iterate-driven run).")

FACETS = [
    Facet("exhaustive", check_exhaustive, enumerate=enum_histories, shards=(16, 16), setup=setup, native=True, hang_is_violation=True),
    Facet("termination", check_term, strategy=strat_term, examples=(400, 6000), shards=(4, 16), setup=setup, native=True, shrink=False),
    Facet("random", check_random, strategy=strat_random, examples=(320, 8000), shards=(16, 16), setup=setup, native=True, hang_is_violation=True),
]
