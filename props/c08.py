"""C08 A trajectory is a pure function of script, engine kind and seed."""
import struct

from hypothesis import strategies as st

from vlib import child, gen, sim
from vlib import build_model as B
from vlib.runner import Facet, Violation, HarnessError, sut_call
from vlib import sut  # noqa: F401
from props.c11 import script_st

PROPERTY = "C08"
RULE = ("schedules: Hypothesis scripts (all engines, both space types, all policies and processing modes) "
        "x seeds x driving schedules (sequences of iterate / iterate_n(k) / run(0) / run(1) / run(5) followed "
        "by run-to-completion) x process histories (0-4 earlier simulations of unrelated scripts and engine "
        "kinds, completed or abandoned mid-run, finalized or not, on the same or on another engine object) x "
        "repetition; reference = the same script run to completion in a FRESH child process; every other "
        "execution must be bit-identical in sample times and data. stored_script: simulate(..., "
        "rng_seed=None) then simulate_script(trajectory.script) reproduces the trajectory, and the stored "
        "seed is the one that was drawn. seeds: Euler results are identical across seeds; stochastic results "
        "with >= 50 events differ between two different seeds (a coincidence is re-tested with 3 further "
        "pairs before it is reported). Non-trivial: a schedule mixing >= 2 call kinds in >= 2 slices with a "
        "non-empty history of another space type or engine kind (schedules); >= 50 events (seeds).")
ASSUMPTIONS = ["run(ms) slice boundaries depend on the wall clock; they are sampled (ms in {0,1,5} under load), not controlled",
               "two objects are used sequentially only (known finding D14 of C10)"]
_state = {}


def setup(ctx):
    from vlib import build
    build.engine_path("plain")
    sim.setup_plain()


def get_child():
    if "c" not in _state:
        _state["c"] = child.Child("plain")
    return _state["c"]


def bits(v):
    return struct.pack("<d", float(v))


@st.composite
def sched_case(draw):
    script = draw(script_st())
    kind = draw(st.sampled_from(["euler", "gillespie", "tauleap", "gillespie", "tauleap"]))
    nh = draw(st.integers(0, 4))
    history = []
    for _ in range(nh):
        history.append({"script": draw(script_st()), "kind": draw(st.sampled_from(["euler", "gillespie", "tauleap"])),
                        "how": draw(st.sampled_from(["complete", "abandon", "complete-nofinalize", "abandon-finalize"])),
                        "steps": draw(st.integers(0, 9)), "same_object": draw(st.booleans())})
    sched = []
    for _ in range(draw(st.integers(0, 8))):
        op = draw(st.sampled_from(["iterate", "iterate_n", "run0", "run1", "run5", "iterate_n", "progress", "complete"]))
        if op == "iterate_n":
            sched.append(["iterate_n", draw(st.integers(0, 9))])
        elif op.startswith("run"):
            sched.append(["run", int(op[3:])])
        else:
            sched.append([op])
    return {"script": script, "kind": kind, "history": history, "schedule": sched, "repeat": draw(st.integers(1, 3))}


def job_of(c, with_history=True, with_schedule=True):
    scripts = [c["script"]]
    calls = [["new", "E", c["kind"]]]
    if with_history:
        for j, h in enumerate(c["history"]):
            scripts.append(h["script"])
            name = "E" if (h["same_object"] and h["kind"] == c["kind"]) else "H%d" % j
            if name != "E":
                calls.append(["new", name, h["kind"]])
            calls.append(["setup", name, len(scripts) - 1])
            if h["how"].startswith("complete"):
                calls.append(["run_loop", name])
                calls.append(["output", name])
            else:
                calls.append(["iterate_n", name, h["steps"]])
            if h["how"] in ("complete", "abandon-finalize"):
                calls.append(["finalize", name])
    marks = []
    for _ in range(c["repeat"] if with_schedule else 1):
        calls.append(["setup", "E", 0])
        if with_schedule:
            for op in c["schedule"]:
                calls.append([op[0], "E"] + op[1:])
        calls.append(["run_loop", "E"])
        calls.append(["output", "E"])
        marks.append(len(calls) - 1)
        calls.append(["finalize", "E"])
    return {"scripts": scripts, "calls": calls}, marks


def strat_sched(ctx):
    return sched_case()


def check_sched(ctx, c):
    kinds_ops = {op[0] for op in c["schedule"] if op[0] in ("iterate", "iterate_n", "run")}
    other = any(h["kind"] != c["kind"] or h["script"]["sys"]["space"]["type"] != c["script"]["sys"]["space"]["type"] for h in c["history"])
    nt = len(kinds_ops) >= 2 and len([op for op in c["schedule"] if op[0] in ("iterate", "iterate_n", "run")]) >= 2 and bool(c["history"]) and other
    ctx.note(c, nt, ["engine:" + c["kind"], "history:%d" % len(c["history"]), "policy:" + c["script"]["policy"], "mode:" + c["script"]["mode"]] +
             (["run(ms>0)"] if any(op[0] == "run" and op[1] > 0 for op in c["schedule"]) else []) +
             (["abandoned-run-in-history"] if any(h["how"].startswith("abandon") for h in c["history"]) else []))
    ref_job, ref_marks = job_of(c, with_history=False, with_schedule=False)
    st_, rep = child.one_shot(ref_job, "plain", 180.0)
    if st_ != "ok":
        raise Violation("reference run (fresh process, setup; run to completion; get_output) ended with %s %s" % (st_, rep), key="reference")
    if rep.get("error"):
        raise HarnessError(rep["error"])
    rr = rep["results"][ref_marks[0]]
    if "exc" in rr:
        raise Violation("reference run raised %s" % rr["exc"], key="reference")
    ref = rr["r"]
    job, marks = job_of(c)
    st_, rep = get_child().run(job, timeout=180.0)
    if st_ == "timeout":
        get_child().kill()
        ctx.skip("time-out (hangs are C10's business)")
        return
    if st_ == "died":
        raise Violation("history + schedule run: process died with signal %s" % rep.get("signal"), key="crash")
    if rep.get("error"):
        raise HarnessError(rep["error"])
    for r in rep["results"]:
        if "exc" in r:
            raise Violation("history + schedule run raised %s" % r["exc"], key="exception")
    text = "history %s ; schedule %s" % ([(h["kind"], h["how"], "same object" if h["same_object"] else "other object") for h in c["history"]], c["schedule"])
    for rep_i, m in enumerate(marks):
        got = rep["results"][m]["r"]
        if len(got["t"]) != len(ref["t"]) or len(got["data"]) != len(ref["data"]):
            raise Violation("%s engine, seed %d: %d samples after [%s] (repetition %d), %d in a fresh process" % (
                c["kind"], c["script"]["seed"], len(got["t"]), text, rep_i, len(ref["t"])), key="determinism:shape")
        for name in ("t", "data"):
            for k, (a, b) in enumerate(zip(got[name], ref[name])):
                if bits(a) != bits(b) and not (a != a and b != b):
                    raise Violation("%s engine, seed %d: %s[%d] = %r after [%s] (repetition %d), %r in a fresh process" % (
                        c["kind"], c["script"]["seed"], name, k, a, text, rep_i, b), key="determinism:" + name)
    ctx.count("executions_compared", len(marks))


# ---- the stored script reproduces the run --------------------------------------------------------------

def strat_stored(ctx):
    return st.fixed_dictionaries({"script": script_st(), "kind": st.sampled_from(["euler", "gillespie", "tauleap"])})


def check_stored(ctx, c):
    import strengths as S
    sc = dict(c["script"], seed=None)
    ctx.note(c, c["kind"] != "euler", ["stored:" + c["kind"], "policy:" + sc["policy"]])
    script = sut_call("build script", B.build_script, sc)
    kw = dict(time_step=script.time_step, sampling_policy=script.sampling_policy, sampling_interval=script.sampling_interval,
              init_state_processing=script.init_state_processing, units_system=script.units_system, t_max=script.t_max)
    out1 = sut_call("simulate(rng_seed=None)", S.simulate, script.system, script.t_sample, engine=sim.engine(c["kind"]), rng_seed=None, **kw)
    seed = out1.script.rng_seed
    if not isinstance(seed, int) or not (0 <= seed < 2 ** 32):
        raise Violation("trajectory.script.rng_seed = %r after simulate(rng_seed=None)" % (seed,), key="stored:seed")
    out2 = sut_call("simulate_script(trajectory.script)", S.simulate_script, out1.script, sim.engine(c["kind"]))
    a = [float(v) for v in out1.t.value] + [float(v) for v in out1.data.value]
    b = [float(v) for v in out2.t.value] + [float(v) for v in out2.data.value]
    if len(a) != len(b) or any(bits(x) != bits(y) and not (x != x and y != y) for x, y in zip(a, b)):
        raise Violation("%s: the script stored in the trajectory (seed %d) does not reproduce the trajectory" % (c["kind"], seed), key="stored:replay")
    out3 = sut_call("simulate(rng_seed=stored)", S.simulate, script.system, script.t_sample, engine=sim.engine(c["kind"]), rng_seed=seed, **kw)
    d = [float(v) for v in out3.t.value] + [float(v) for v in out3.data.value]
    if len(a) != len(d) or any(bits(x) != bits(y) and not (x != x and y != y) for x, y in zip(a, d)):
        raise Violation("%s: simulate(rng_seed=%d) differs from the run in which that seed was drawn" % (c["kind"], seed), key="stored:seed-replay")


# ---- seeds ------------------------------------------------------------------------------------------------

def strat_seeds(ctx):
    return st.fixed_dictionaries({"script": script_st(), "kind": st.sampled_from(["euler", "gillespie", "tauleap"]),
                                  "s1": st.integers(0, 2 ** 32 - 1), "s2": st.integers(0, 2 ** 32 - 1)})


def run_seed(c, seed, policy="on_iteration"):
    sc = dict(c["script"], seed=seed, policy=policy)
    script = B.build_script(sc)
    out, done, _ = sim.drive(script, c["kind"], 400)
    return [float(v) for v in out.t.value], [float(v) for v in out.data.value], done


def check_seeds(ctx, c):
    if c["s1"] == c["s2"]:
        ctx.skip("equal seeds")
        return
    if c["kind"] == "euler" and c["script"]["mode"] in ("Poisson", "redist"):
        # the user explicitly asked for a random resampling of the initial state: that part is seeded by design
        ctx.skip("euler with an explicitly stochastic initial-state processing mode")
        return
    t1, d1, n1 = sut_call("run seed 1", run_seed, c, c["s1"])
    t2, d2, n2 = sut_call("run seed 2", run_seed, c, c["s2"])
    n = len(d1) // max(1, len(t1))
    changes = sum(1 for k in range(1, len(t1)) if d1[k * n:(k + 1) * n] != d1[(k - 1) * n:k * n])
    ctx.note(c, c["kind"] == "euler" or changes >= 50, ["seeds:" + c["kind"], "events>=50" if changes >= 50 else "events<50"])
    same = (t1 == t2 and d1 == d2)
    if c["kind"] == "euler":
        if not same and not all((a == b) or (a != a and b != b) for a, b in zip(t1 + d1, t2 + d2)):
            raise Violation("Euler result depends on the seed (%d vs %d)" % (c["s1"], c["s2"]), key="seeds:euler")
        return
    if changes >= 50 and same:
        # coincidence? three further seed pairs
        again = 0
        for j in range(1, 4):
            ta, da, _ = run_seed(c, (c["s1"] + 7919 * j) % 2 ** 32)
            tb, db, _ = run_seed(c, (c["s2"] + 104729 * j) % 2 ** 32)
            if ta == tb and da == db:
                again += 1
        if again == 3:
            raise Violation("%s: trajectories with >= 50 events are identical for different seeds (%d, %d and 3 further pairs): the seed has no effect" % (
                c["kind"], c["s1"], c["s2"]), key="seeds:no-effect")


# ---- coarse-grained runs are runs too ------------------------------------------------------------------------------

def strat_cg(ctx):
    return st.fixed_dictionaries({"script": script_st(), "kind": st.sampled_from(["gillespie", "tauleap", "euler"]),
                                  "map": st.sampled_from(["identity", "pairs"])})


def check_cg(ctx, c):
    import strengths as S
    sp = c["script"]["sys"]["space"]
    if sp["type"] != "grid":
        ctx.skip("coarse-graining applies to grids")
        return
    if any(v == "periodical" for v in sp["bc"].values()):
        ctx.skip("coarse-graining is only offered for reflecting grids")
        return
    n = sp["w"] * sp["h"] * sp["d"]
    envs = sp["cell_env"]
    if c["map"] == "pairs" and len(set(envs)) > 1:
        cgmap = list(range(n))          # groups must not mix environments
    elif c["map"] == "pairs":
        cgmap = [i // 2 for i in range(n)]
    else:
        cgmap = list(range(n))
    ctx.note(c, c["kind"] != "euler" and n >= 2, ["cg:" + c["kind"], "cg-map:" + ("identity" if cgmap == list(range(n)) else "pairs")])
    script = sut_call("build script", B.build_script, c["script"])
    outs = []
    for rep in range(3):
        o = sut_call("simulate_script(cgmap)", S.simulate_script, script, sim.engine(c["kind"]), cgmap=list(cgmap))
        outs.append([float(v) for v in o.t.value] + [float(v) for v in o.data.value])
    for rep in (1, 2):
        a, b = outs[0], outs[rep]
        if len(a) != len(b) or any(bits(x) != bits(y) and not (x != x and y != y) for x, y in zip(a, b)):
            raise Violation("%s: simulate_script(script, cgmap=%s) with seed %r: repetition %d differs from the first run (%d vs %d values)" % (
                c["kind"], "identity" if cgmap == list(range(n)) else "pairs", c["script"]["seed"], rep + 1, len(a), len(b)), key="cg:repeat")


RULE = RULE + " " + ("Since seeded round 5 facet coarse_grained: simulate_script(script, engine, cgmap = identity or pairs) on reflecting grids, three times with the script's seed, bit-identical.")

FACETS = [
    Facet("schedules", check_sched, strategy=strat_sched, examples=(320, 8000), shards=(16, 16), setup=setup, native=True),
    Facet("stored_script", check_stored, strategy=strat_stored, examples=(300, 6000), shards=(4, 16), setup=setup, native=True),
    Facet("coarse_grained", check_cg, strategy=strat_cg, examples=(600, 8000), shards=(4, 16), setup=setup, native=True),
    Facet("seeds", check_seeds, strategy=strat_seeds, examples=(300, 6000), shards=(4, 16), setup=setup, native=True),
]
