"""C09 Sampling contract: which states are recorded, when, and in what shape."""
import math
import struct
from fractions import Fraction as F

from hypothesis import strategies as st

from vlib import gen, si, sim
from vlib import build_model as B
from vlib.ratelaw import Model
from vlib.runner import Facet, Violation, sut_call
from vlib import sut  # noqa: F401
import strengths as S

PROPERTY = "C09"
RULE = ("Hypothesis scripts: small systems (grid or graph) x engine (euler / tauleap / gillespie) x the "
        "four sampling policies x requested-time lists (sorted; duplicates; clusters inside one step; first "
        "> 0 or = 0; last before / after t_max; on and off the step grid) x t_max explicit or default x "
        "time step x sampling interval x a driving script of iterate() calls interleaved with explicit "
        "sample() calls. exact facet: time quantities are bare numbers in the script's own unit system, so "
        "the engine receives exactly those doubles and the reference model (float accumulation t += dt, "
        "t >= t_sample, floor(t/interval), t > t_max, one record per iteration flag) predicts which "
        "iterations are recorded, the recorded times bit for bit, every iterate() return value, "
        "is_complete() and get_progress(); recorded states are compared bit for bit with an on_iteration "
        "run of the same script and seed; sample 0 with the (processed) initial state; shapes nsamples x "
        "nspecies x ncells. units facet: the same with every time quantity in another time unit and "
        "requested times mid-step: recorded iteration numbers must be those of the model. Non-trivial: "
        ">= 2 of {a step covering >= 2 requested times, a requested time beyond t_max, first requested "
        "time > 0, an interval step skipping a multiple, a Gillespie run dying early, explicit samples}.")
ASSUMPTIONS = ["x86-64 double arithmetic of the engine equals Python float arithmetic for t += dt, t/interval",
               "records of a policy run are compared with the on_iteration run of the same script and seed "
               "(C08 decides that such runs are reproducible)"]


def bits(x):
    return struct.pack("<d", float(x))


# ---- reference sampling / termination model ---------------------------------------------------------

def model(policy, ts, interval, tmax, next_time, ops):
    """next_time(k, t) -> time after iteration k+1, or None when the run dies (total propensity 0).
    -> (records [(k, t)], returns [bool per 'i' op], complete, k, t)"""
    records = []
    st_ = {"flag": False, "pos": 0, "last": -1.0, "t": 0.0, "k": 0, "complete": False}

    def sample():
        if not st_["flag"]:
            records.append((st_["k"], st_["t"]))
            st_["flag"] = True

    def sampling_step():
        if policy == "on_t_sample":
            while st_["pos"] < len(ts) and st_["t"] >= ts[st_["pos"]]:
                sample()
                st_["pos"] += 1
        elif policy == "on_iteration":
            sample()
        elif policy == "on_interval":
            r = math.floor(st_["t"] / interval)
            if r > st_["last"]:
                sample()
                st_["last"] = r

    sampling_step()
    rets = []
    for op in ops:
        if op == "s":
            sample()
            continue
        st_["flag"] = False
        if st_["complete"]:
            rets.append(False)
            continue
        nxt = next_time(st_["k"], st_["t"])
        if nxt is None:
            st_["complete"] = True
        else:
            st_["k"] += 1
            st_["t"] = nxt
            sampling_step()
            if tmax >= 0 and st_["t"] > tmax:
                st_["complete"] = True
        rets.append(not st_["complete"])
    return records, rets, st_["complete"], st_["k"], st_["t"]


# ---- generation -----------------------------------------------------------------------------------------

@st.composite
def case(draw, unit_variation=False):
    spec = draw(gen.system_spec(variety="mild", max_species=2, max_reactions=2, max_order=2, max_cells=6, max_axis=3,
                                chemostats="none", state="explicit", count_exp=(0, 2), rate_exp=(-1, 0)))
    engine = draw(st.sampled_from(["euler", "euler", "tauleap", "gillespie", "gillespie"]))
    policy = draw(st.sampled_from(["on_t_sample", "on_t_sample", "on_iteration", "on_interval", "no_sampling"]))
    nsteps = draw(st.integers(1, 40))
    # a time step that keeps Euler / tau-leap tame: at most ~2 % relative change per step
    m_ = Model(spec)
    x_ = m_.state()
    from vlib.ratelaw import tame_dt
    base = tame_dt(m_)
    units = draw(gen.us_mild)
    tscale = float(si.TIME[units["time"]])
    # all time quantities of the script are bare numbers in the script's time unit: 'dt' below is that number,
    # chosen so that the physical step (dt x unit) is the tame one computed above in seconds
    dt = draw(st.integers(100, 999)) / 1000.0 * base / tscale
    # requested times in units of dt (fractions), built from structured pieces
    pieces = []
    n_req = draw(st.integers(1, 8))
    for _ in range(n_req):
        kind = draw(st.sampled_from(["grid", "off", "cluster", "zero", "beyond"]))
        if kind == "grid":
            pieces.append(float(draw(st.integers(0, nsteps + 3))))
        elif kind == "off":
            pieces.append(draw(st.integers(0, (nsteps + 3) * 16)) / 16.0 + (0.03125 if unit_variation else 0.0))
        elif kind == "cluster":
            base = draw(st.integers(0, nsteps))
            pieces.extend([base + 0.25, base + 0.5, base + 0.5])
        elif kind == "zero":
            pieces.append(0.0)
        else:
            pieces.append(nsteps + draw(st.integers(1, 6)) + 0.5)
    if unit_variation:
        pieces = [p if (p * 16) % 16 != 0 or p == 0 else p + 0.5 for p in pieces]
    pieces.sort()
    tmax_mode = draw(st.sampled_from(["default", "explicit-grid", "explicit-off", "explicit-off", "zero"]))
    if tmax_mode == "default":
        tmax_steps = None
    elif tmax_mode == "explicit-grid":
        tmax_steps = float(draw(st.integers(0, nsteps))) + (0.5 if unit_variation else 0.0)
    elif tmax_mode == "zero":
        tmax_steps = 0.0
    else:
        tmax_steps = draw(st.integers(0, nsteps * 8)) / 8.0 + 0.0625
    interval_steps = draw(st.sampled_from([0.5, 1.0, 1.5, 2.0, 3.3, 7.25, 0.1]))
    if engine == "gillespie" and draw(st.booleans()):
        # make the interval comparable to the mean waiting time 1/a0 (reference propensities in the initial
        # state): some events then jump over several multiples and are followed by events that cross none
        a0 = 0.0
        for ch in m_.channels:
            for i in range(m_.n):
                a0 += m_.propensity(ch, i, [round(v) for v in x_])
        for (i, j, _, _), krow in zip(m_.slots, m_.kslot):
            for s_i in range(m_.ns):
                a0 += krow[s_i] * round(x_[s_i * m_.n + i])
        if a0 > 0:
            interval_steps = draw(st.sampled_from([0.3, 1.0, 3.0])) / (a0 * dt * tscale)
    if unit_variation:
        interval_steps = [3.37, 0.37, 1.73][draw(st.integers(0, 2))]
    n_ops = draw(st.integers(1, nsteps + 6))
    ops = []
    for _ in range(n_ops):
        ops.append("s" if draw(st.integers(0, 5)) == 0 else "i")
    return {"sys": spec, "engine": engine, "policy": policy, "dt": dt, "req_steps": pieces, "tmax_steps": tmax_steps,
            "interval_steps": interval_steps, "ops": "".join(ops), "seed": draw(st.integers(0, 2 ** 32 - 1)),
            "units": units, "tunit": draw(st.sampled_from(["h", "min", "s", "ms", "µs"])),
            "route": draw(st.sampled_from(["ctor", "dict"])), "tsform": draw(st.sampled_from(["list", "nparray", "unitarray"])),
            "build": draw(st.sampled_from(["ctor", "ctor", "setters"]))}


def integerise(spec):
    spec = dict(spec)
    stt = dict(spec["state"])
    stt["values"] = [gen.fs(round(F(v))) for v in stt["values"]]
    spec["state"] = stt
    return spec


def make_script(c, system, policy, unit_variation):
    U = c["units"]
    dt = c["dt"]
    req = [p * dt for p in c["req_steps"]]
    interval = c["interval_steps"] * dt
    tmax = None if c["tmax_steps"] is None else c["tmax_steps"] * dt
    if not unit_variation:
        ts_arg = list(req)
        if c["tsform"] == "nparray":
            import numpy as np
            ts_arg = np.array(req)
        elif c["tsform"] == "unitarray":
            ts_arg = S.UnitArray(req, U["time"])
        kw = {"time_step": dt, "sampling_interval": interval}
        if tmax is not None:
            kw["t_max"] = tmax
    else:
        # every time quantity expressed in another time unit
        f = float(si.TIME[U["time"]] / si.TIME[c["tunit"]])
        ts_arg = S.UnitArray([v * f for v in req], c["tunit"])
        kw = {"time_step": "%r %s" % (dt * f, c["tunit"]), "sampling_interval": S.UnitValue(interval * f, c["tunit"])}
        if tmax is not None:
            kw["t_max"] = "%r %s" % (tmax * f, c["tunit"])
    mode = "none"
    if c.get("build") == "setters":
        # the script object existed before with other time quantities, was read (t_max resolved, dictionary made),
        # and is then edited through its public setters: it must run like a script built directly
        decoy = [0.0, req[-1] * 0.37 + 2.5 * dt]
        script = S.RDScript(system, decoy, sampling_policy="on_iteration", rng_seed=c["seed"], init_state_processing=mode,
                            units_system=B.US(U), time_step=dt * 0.7, sampling_interval=dt * 5.5)
        _ = script.t_max
        S.rdscript_to_dict(script)
        script.t_sample = ts_arg
        script.time_step = kw["time_step"]
        script.sampling_interval = kw["sampling_interval"]
        if "t_max" in kw:
            script.t_max = kw["t_max"]
        script.sampling_policy = policy
        return script, req, interval, (req[-1] if tmax is None else tmax)
    return S.RDScript(system, ts_arg, sampling_policy=policy, rng_seed=c["seed"], init_state_processing=mode,
                      units_system=B.US(U), **kw), req, interval, (req[-1] if tmax is None else tmax)


def drive(script, kind, ops):
    eng = sim.engine(kind)
    eng.setup(script)
    rets, progress = [], []
    try:
        for op in ops:
            if op == "s":
                eng.sample()
            else:
                rets.append(bool(eng.iterate()))
        complete = eng.is_complete()
        prog = eng.get_progress()
        out = eng.get_output()
    finally:
        eng.finalize()
    return out, rets, complete, prog


def classes_of(c, records, ops, req, tmax, k_end, died):
    cl = ["engine:" + c["engine"], "policy:" + c["policy"], "space:" + c["sys"]["space"]["type"], "script:" + c.get("build", "ctor")]
    feats = 0
    if c["policy"] == "on_t_sample":
        # a step covering >= 2 requested times
        dt = c["dt"]
        per_step = {}
        for p in c["req_steps"]:
            per_step[math.ceil(p)] = per_step.get(math.ceil(p), 0) + 1
        if any(v >= 2 for v in per_step.values()):
            cl.append("step-covers->=2-requested-times")
            feats += 1
        if req and req[0] > 0:
            cl.append("first-requested-time>0")
            feats += 1
        if any(v > tmax for v in req):
            cl.append("requested-time-beyond-t_max")
            feats += 1
        if len(set(c["req_steps"])) < len(c["req_steps"]):
            cl.append("duplicate-requested-times")
    if c["policy"] == "on_interval" and c["interval_steps"] < 1:
        cl.append("interval-step-skips-multiples")
        feats += 1
    if "s" in ops:
        cl.append("explicit-samples")
        feats += 1
    if died:
        cl.append("gillespie-died-early")
        feats += 1
    if c["tmax_steps"] is None:
        cl.append("t_max-default")
    return cl, feats >= 2


def run_case(ctx, c, unit_variation):
    kind = c["engine"]
    spec = c["sys"] if kind == "euler" else integerise(c["sys"])
    model_ = Model(spec)
    n = model_.n * model_.ns
    system = sut_call("build_system", B.build_system, spec, c["route"])
    ops = c["ops"]
    n_it = ops.count("i")
    # reference: every iteration recorded
    ref_script, req, interval, tmax = sut_call("RDScript(reference)", make_script, c, system, "on_iteration", unit_variation)
    ref, ref_rets, _, _ = sut_call("engine run (on_iteration reference)", drive, ref_script, kind, "i" * n_it)
    ref_t = [float(v) for v in ref.t.value]
    ref_d = [float(v) for v in ref.data.value]
    if len(ref_d) != len(ref_t) * n:
        raise Violation("reference run: %d values for %d samples x state size %d" % (len(ref_d), len(ref_t), n), key="shape")
    k_ref = len(ref_t) - 1
    died = kind == "gillespie" and k_ref < n_it and not (tmax >= 0 and ref_t[-1] > tmax)
    script, req, interval, tmax = sut_call("RDScript", make_script, c, system, c["policy"], unit_variation)
    U = c["units"]
    # what the engine is given (script units -> engine units is the identity for time in the exact facet)
    if kind == "gillespie" or unit_variation:
        def next_time(k, t):
            return ref_t[k + 1] if k + 1 < len(ref_t) else None
    else:
        dt = c["dt"]

        def next_time(k, t):
            return t + dt
    if unit_variation:
        # decisions are made by the engine on converted doubles; requested times sit >= 1/32 step away
        # from step times, so the model on the reference run's own step times decides the same way
        ts_model, interval_model, tmax_model = req, interval, tmax
    else:
        ts_model, interval_model, tmax_model = req, interval, tmax
    records, rets, complete, k_end, t_end = model(c["policy"], ts_model, interval_model, tmax_model, next_time, ops)
    cl, nt = classes_of(c, records, ops, req, tmax, k_end, died)
    ctx.note(c, nt, cl + (["unit-variation"] if unit_variation else ["exact"]))
    if kind == "gillespie" and unit_variation:
        # event times are not on a grid: a requested time may sit arbitrarily close to an event
        marks = list(req) + [tmax] + [interval * j for j in range(0, 64)]
        for tt in ref_t[1:]:
            if any(abs(tt - m) <= 1e-9 * max(abs(tt), abs(m)) for m in marks):
                ctx.skip("gillespie event within 1e-9 of a sampling boundary")
                return
    out, got_rets, got_complete, prog = sut_call("engine run", drive, script, kind, ops)
    t = [float(v) for v in out.t.value]
    d = [float(v) for v in out.data.value]
    if len(d) != len(t) * n:
        raise Violation("data holds %d values for %d samples x %d species x %d cells" % (len(d), len(t), model_.ns, model_.n), key="shape")
    if out.nsamples() != len(t):
        raise Violation("nsamples() = %d, len(t) = %d" % (out.nsamples(), len(t)), key="shape")
    desc = "%s/%s dt=%r req=%s t_max=%r interval=%r ops=%s" % (kind, c["policy"], c["dt"], req, tmax, interval, ops)
    if got_rets != rets:
        raise Violation("iterate() returned %s, model %s (%s)" % (got_rets, rets, desc), key="termination:returns")
    if bool(got_complete) != complete:
        raise Violation("is_complete() = %r, model %r (%s)" % (got_complete, complete, desc), key="termination:is_complete")
    if len(t) != len(records):
        raise Violation("%d records, model predicts %d at iterations %s (%s)" % (len(t), len(records), [r[0] for r in records], desc),
                        key="records:count")
    for j, (k, tk) in enumerate(records):
        if k >= len(ref_t):
            raise Violation("model refers to iteration %d, reference run has %d" % (k, len(ref_t) - 1), key="records:reference")
        if bits(t[j]) != bits(ref_t[k]):
            raise Violation("record %d has time %r, iteration %d of the on_iteration run has %r (%s)" % (j, t[j], k, ref_t[k], desc),
                            key="records:time")
        if not unit_variation and kind != "gillespie" and bits(t[j]) != bits(tk):
            raise Violation("record %d has time %r, accumulated step time is %r" % (j, t[j], tk), key="records:time-model")
        if [bits(v) for v in d[j * n:(j + 1) * n]] != [bits(v) for v in ref_d[k * n:(k + 1) * n]]:
            raise Violation("record %d (iteration %d, t=%r) differs from the state after that iteration in the on_iteration run (%s)" % (
                j, k, t[j], desc), key="records:state")
    for a, b in zip(t, t[1:]):
        if b < a:
            raise Violation("sample times decrease: %r then %r" % (a, b), key="records:monotone")
        if b == a and "s" not in ops:
            raise Violation("two policy records at the same time %r" % a, key="records:strict")
    # progress
    if not unit_variation:
        want_p = 100.0 * t_end / tmax if tmax > 0 else 0.0
        if abs(prog - want_p) > 1e-9 * abs(want_p) + 1e-12:
            raise Violation("get_progress() = %r, expected 100 t/t_max = %r" % (prog, want_p), key="progress")
    # sample at t = 0 holds the (processed) initial state
    if records and records[0][0] == 0:
        x0 = model_.state()
        got0 = si.si_floats(out.data)[:n]
        for i in range(n):
            if abs(got0[i] - x0[i]) > 1e-12 * abs(x0[i]):
                raise Violation("record at t=0 entry %d = %r molecules, initial state %r" % (i, got0[i], x0[i]), key="records:t0")


def check_exact(ctx, c):
    run_case(ctx, c, False)


def check_units(ctx, c):
    run_case(ctx, c, True)


def strat_exact(ctx):
    return case(False)


def strat_units(ctx):
    return case(True)


RULE = RULE + " " + ('Since seeded round 4 one script in three is not built directly: an RDScript with other time quantities is created, its t_max is read and a dictionary is made from it, and only then t_sample, time_step, sampling_interval, t_max and the policy are assigned through the public setters; it must run exactly like the directly built script.')

FACETS = [
    Facet("exact", check_exact, strategy=strat_exact, examples=(1600, 40000), shards=(12, 16), setup=sim.setup_plain),
    Facet("units", check_units, strategy=strat_units, examples=(500, 12000), shards=(4, 16), setup=sim.setup_plain),
]
