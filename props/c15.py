"""C15 Grid geometry is consistent everywhere, and a grid equals its graph."""
import itertools
import math
from collections import Counter
from fractions import Fraction as F

from hypothesis import strategies as st

from vlib import gen, si, sim
from vlib import build_model as B
from vlib.ratelaw import Model
from vlib.runner import Facet, Violation, must_raise, sut_call
from vlib import sut  # noqa: F401
import strengths as S
from strengths import kinetics as K
from strengths.coarsegrain import grid_to_graph

PROPERTY = "C15"
RULE = ("geometry: exhaustive over all grids w,h,d in 1..4 (thorough: 1..5) x 8 reflecting/periodic combinations (512 / 1000 "
        "grids): every cell (index <-> coordinates bijection with index = z*w*h + y*w + x, five position "
        "forms), every out-of-grid linear index in [-2n, 3n] and every coordinate triple with one "
        "component out of range must raise, get_neighbors (as a set of distinct cells) and are_neighbors "
        "for every ordered pair vs reference geometry, symmetry; engine_neighbours: same 512 grids, one "
        "pure-diffusion Euler step from a one-hot state at every cell reveals the native neighbour "
        "multiset (x1[j]/(dt k) = multiplicity); geometry_large: Hypothesis shapes with one axis up to 12; "
        "kinetics_neighbours: Hypothesis grids <= 12 cells, compute_dstatedt on a one-hot state; "
        "graph_equivalence: Hypothesis systems on grids: grid_to_graph keeps volumes, environments, "
        "adjacency multiset, surface = V^(2/3), distance = V^(1/3); Euler trajectories (20 steps) on grid "
        "and graph agree to 1e-9; compute_dstatedt agrees when no periodic axis has length 2. "
        "Non-trivial: >= 2 axes of length >= 2 and >= 1 periodic axis.")
ASSUMPTIONS = ["reference geometry written in this file from the statement (index formula, +-1 steps with wrap)",
               "entries of get_neighbors equal to the cell itself (periodic axis of length 1) are ignored: the "
               "property speaks of distinct cells; multiplicities are checked where they matter physically "
               "(engine and kinetics facets)"]
EXHAUSTIVE_PART = "facets 'geometry' and 'engine_neighbours': all 512 grids with w,h,d in 1..4 (thorough tier: all 1000 grids with w,h,d in 1..5) x 8 boundary combinations, all cells, all ordered pairs"


class Coord:
    def __init__(self, x=0, y=0, z=0):
        self.x, self.y, self.z = x, y, z


def ref_neighbours(w, h, d, per, i):
    """multiset (list) of neighbour indices of cell i, one per face (self included when a periodic
    axis of length 1 wraps onto the cell itself)"""
    dims = (w, h, d)
    c = [i % w, (i // w) % h, i // (w * h)]
    out = []
    for ax in range(3):
        for step in (1, -1):
            cc = list(c)
            cc[ax] += step
            if per[ax]:
                cc[ax] %= dims[ax]
            if 0 <= cc[ax] < dims[ax]:
                out.append(cc[0] + cc[1] * w + cc[2] * w * h)
    return out


def bc_dict(per):
    return {ax: ("periodical" if p else "reflecting") for ax, p in zip("xyz", per)}


def grid_classes(w, h, d, per):
    cl = []
    dims = (w, h, d)
    for ax, p in enumerate(per):
        if p:
            cl.append("periodic-len%s" % (dims[ax] if dims[ax] < 3 else "3+"))
    cl.append("axes>=2:%d" % sum(1 for v in dims if v >= 2))
    return cl


def grid_nontrivial(w, h, d, per):
    return sum(1 for v in (w, h, d) if v >= 2) >= 2 and any(per)


def enum_grids(ctx):
    top = 6 if ctx.tier == "thorough" else 5
    for w, h, d in itertools.product(range(1, top), repeat=3):
        for per in itertools.product([False, True], repeat=3):
            yield {"w": w, "h": h, "d": d, "per": list(per)}


def geometry_checks(g, c, full_pairs=True):
    w, h, d, per = c["w"], c["h"], c["d"], c["per"]
    n = w * h * d
    for i in range(n):
        xyz = (i % w, (i // w) % h, i // (w * h))
        got = sut_call("get_cell_coordinates", g.get_cell_coordinates, i)
        if tuple(got) != xyz:
            raise Violation("grid %dx%dx%d: get_cell_coordinates(%d) = %s, expected %s" % (w, h, d, i, tuple(got), xyz),
                            key="geometry:coordinates")
        o = sut_call("get_cell_coordinates(return_type)", g.get_cell_coordinates, i, Coord)
        if (o.x, o.y, o.z) != xyz:
            raise Violation("get_cell_coordinates(%d, Coord) = %s" % (i, (o.x, o.y, o.z)), key="geometry:coordinates")
        for form, pos in (("index", i), ("float", float(i)), ("tuple", xyz), ("list", list(xyz)), ("object", Coord(*xyz))):
            gi = sut_call("get_cell_index", g.get_cell_index, pos)
            if gi != i or type(gi) is not int:
                raise Violation("grid %dx%dx%d: get_cell_index(%s %r) = %r, expected %d" % (w, h, d, form, pos, gi, i),
                                key="geometry:index")
            if not sut_call("is_within_bounds", g.is_within_bounds, pos):
                raise Violation("is_within_bounds(%r) is False inside the grid" % (pos,), key="geometry:bounds")
        ref = ref_neighbours(w, h, d, per, i)
        ref_set = set(ref) - {i}
        gn = sut_call("get_neighbors", g.get_neighbors, i)
        if set(gn) - {i} != ref_set:
            raise Violation("grid %dx%dx%d bc %s: get_neighbors(%d) = %s, reference %s" % (
                w, h, d, per, i, sorted(gn), sorted(ref_set)), key="geometry:get_neighbors")
        if any((not isinstance(v, int)) or v < 0 or v >= n for v in gn):
            raise Violation("get_neighbors(%d) returned an invalid index: %s" % (i, gn), key="geometry:get_neighbors")
        pairs = range(n) if full_pairs else sorted(ref_set | {(i * 7 + 3) % n, (i + n // 2) % n})
        for j in pairs:
            if j == i:
                continue
            a = sut_call("are_neighbors", g.are_neighbors, i, j)
            if bool(a) != (j in ref_set):
                raise Violation("grid %dx%dx%d bc %s: are_neighbors(%d, %d) = %r, reference %r" % (
                    w, h, d, per, i, j, a, j in ref_set), key="geometry:are_neighbors")
            if full_pairs:
                b = sut_call("are_neighbors", g.are_neighbors, j, i)
                if bool(a) != bool(b):
                    raise Violation("are_neighbors not symmetric on (%d, %d)" % (i, j), key="geometry:symmetry")
    # outside the grid: every form must raise
    for bad in list(range(-2 * n, 0)) + list(range(n, 3 * n + 1)):
        must_raise("get_cell_index(%d) on a grid of %d cells" % (bad, n), g.get_cell_index, bad)
        must_raise("get_cell_coordinates(%d) on a grid of %d cells" % (bad, n), g.get_cell_coordinates, bad)
        must_raise("get_cell_env(%d) on a grid of %d cells" % (bad, n), g.get_cell_env, bad)
        if sut_call("is_within_bounds", g.is_within_bounds, bad):
            raise Violation("is_within_bounds(%d) is True on a grid of %d cells" % (bad, n), key="geometry:bounds-outside")
    dims = (w, h, d)
    for ax in range(3):
        for v in (-2, -1, dims[ax], dims[ax] + 1):
            t = [0, 0, 0]
            t[ax] = v
            for pos in (tuple(t), list(t), Coord(*t)):
                must_raise("get_cell_index(%r) on grid %dx%dx%d" % (tuple(t), w, h, d), g.get_cell_index, pos)
                if sut_call("is_within_bounds", g.is_within_bounds, pos):
                    raise Violation("is_within_bounds(%r) is True on grid %dx%dx%d" % (tuple(t), w, h, d), key="geometry:bounds-outside")
            must_raise("are_neighbors(0, %r)" % (tuple(t),), g.are_neighbors, 0, tuple(t))
            must_raise("get_neighbors(%r)" % (tuple(t),), g.get_neighbors, tuple(t))


def check_geometry(ctx, c):
    w, h, d, per = c["w"], c["h"], c["d"], c["per"]
    ctx.note(c, grid_nontrivial(w, h, d, per), grid_classes(w, h, d, per))
    g = sut_call("RDGridSpace", S.RDGridSpace, w=w, h=h, d=d, boundary_conditions=bc_dict(per))
    if g.size() != w * h * d:
        raise Violation("size() = %d" % g.size(), key="geometry:size")
    geometry_checks(g, c, True)
    # the same object after its boundary conditions are changed through the public method (every answer above has
    # been given once already): the relation must be the one of the new setting
    for per2 in ([not p for p in per], [per[2], per[0], not per[1]]):
        if per2 == per:
            continue
        sut_call("set_boundary_conditions", g.set_boundary_conditions, bc_dict(per2))
        got_bc = sut_call("get_boundary_conditions", g.get_boundary_conditions)
        want_bc = {a: ("periodical" if p else "reflecting") for a, p in zip("xyz", per2)}
        if dict(got_bc) != want_bc:
            raise Violation("get_boundary_conditions() = %s after set_boundary_conditions(%s)" % (dict(got_bc), bc_dict(per2)), key="geometry:bc-getter")
        try:
            geometry_checks(g, dict(c, per=per2), False)
        except Violation as e:
            raise Violation("after set_boundary_conditions(%s) on a grid created with %s: %s" % (bc_dict(per2), bc_dict(per), e), key=e.key + ":after-bc-change")
    ctx.count("bc-changes", 2)
    ctx.count("cells", w * h * d)
    ctx.count("ordered_pairs", (w * h * d) * (w * h * d - 1))


def strat_large(ctx):
    def build(long_axis, a, b, c, per):
        dims = [a, b, c]
        dims[long_axis] = max(dims[long_axis], 5 + (a * b * c) % 8)
        return {"w": dims[0], "h": dims[1], "d": dims[2], "per": per}
    return st.builds(build, st.integers(0, 2), st.integers(1, 5), st.integers(1, 5), st.integers(1, 4),
                     st.lists(st.booleans(), min_size=3, max_size=3))


def check_large(ctx, c):
    w, h, d, per = c["w"], c["h"], c["d"], c["per"]
    ctx.note(c, grid_nontrivial(w, h, d, per), grid_classes(w, h, d, per) + ["large"])
    g = sut_call("RDGridSpace", S.RDGridSpace, w=w, h=h, d=d, boundary_conditions=bc_dict(per))
    geometry_checks(g, c, False)


# ---- native engine neighbour table ---------------------------------------------------------------

def check_engine(ctx, c):
    w, h, d, per = c["w"], c["h"], c["d"], c["per"]
    n = w * h * d
    ctx.note(c, grid_nontrivial(w, h, d, per), grid_classes(w, h, d, per))
    net = S.RDNetwork([S.Species("A", D=1.0)], [])
    g = S.RDGridSpace(w=w, h=h, d=d, boundary_conditions=bc_dict(per))
    dt = 1.0 / 64
    for i in range(n):
        state = [0.0] * n
        state[i] = 1024.0
        system = S.RDSystem(net, g, state=state)
        traj = sut_call("simulate", S.simulate, system, [0], engine=sim.engine("euler"), sampling_policy="on_iteration",
                        time_step=dt, t_max=dt / 2)
        data = [float(v) for v in traj.data.value]
        if len(data) < 2 * n:
            raise Violation("expected 2 samples, got %d values" % len(data), key="engine:samples")
        x1 = data[n:2 * n]
        ref = Counter(j for j in ref_neighbours(w, h, d, per, i) if j != i)
        # k = D/h^2 = 1 per second and per face; x1[j] = dt * mult(j) * 1024 ; x1[i] = 1024 (1 - dt * faces)
        for j in range(n):
            want = 1024.0 * dt * ref.get(j, 0) if j != i else 1024.0 * (1 - dt * sum(ref.values()))
            if abs(x1[j] - want) > 1e-9 * 1024:
                raise Violation("grid %dx%dx%d bc %s: one diffusion step from cell %d puts %r in cell %d, reference %r (multiplicity %d)" % (
                    w, h, d, per, i, x1[j], j, want, ref.get(j, 0)), key="engine:neighbours")
        # the two stochastic algorithms walk the same table with code of their own
        N = 6400.0
        state = [0.0] * n
        state[i] = N
        system = S.RDSystem(net, g, state=state)
        seed = 1 + i + 97 * (w + 5 * h + 25 * d) + 100003 * sum(b << k for k, b in enumerate(per))
        traj = sut_call("simulate(tauleap)", S.simulate, system, [0], engine=sim.engine("tauleap"), sampling_policy="on_iteration",
                        time_step=dt, t_max=dt / 2, rng_seed=seed, init_state_processing="none")
        data = [float(v) for v in traj.data.value]
        if len(data) < 2 * n:
            raise Violation("tau-leap: expected 2 samples, got %d values" % len(data), key="engine:samples")
        x1 = data[n:2 * n]
        if sum(x1) != N:
            raise Violation("grid %dx%dx%d bc %s: one tau-leap diffusion step from cell %d changes the total from %r to %r" % (w, h, d, per, i, N, sum(x1)),
                            key="engine:tauleap-total")
        for j in range(n):
            if j == i:
                continue
            mean = N * dt * ref.get(j, 0)
            if abs(x1[j] - mean) > 7 * math.sqrt(mean) + 1e-9:
                raise Violation("grid %dx%dx%d bc %s: one tau-leap diffusion step from cell %d (%d molecules) puts %r molecules in cell %d, the "
                                "neighbour relation gives Poisson(%r) (multiplicity %d)" % (w, h, d, per, i, N, x1[j], j, mean, ref.get(j, 0)),
                                key="engine:tauleap-neighbours")
        script = S.RDScript(system, [0], t_max=1e9, sampling_policy="on_iteration", rng_seed=seed, init_state_processing="none")
        traj, _, _ = sut_call("gillespie run", sim.drive, script, "gillespie", 120)
        data = [float(v) for v in traj.data.value]
        for k in range(len(data) // n - 1):
            a, b = data[k * n:(k + 1) * n], data[(k + 1) * n:(k + 2) * n]
            diff = {j: b[j] - a[j] for j in range(n) if b[j] != a[j]}
            if not diff:
                # a molecule that hops onto its own cell (periodic axis of length 1)
                if not any(j in ref_neighbours(w, h, d, per, j) for j in range(n) if a[j] > 0):
                    raise Violation("grid %dx%dx%d bc %s: Gillespie event %d changes nothing although no occupied cell is its own neighbour" % (
                        w, h, d, per, k), key="engine:gillespie-null")
                continue
            src_ = [j for j, v in diff.items() if v == -1]
            dst_ = [j for j, v in diff.items() if v == 1]
            if len(diff) != 2 or len(src_) != 1 or len(dst_) != 1:
                raise Violation("grid %dx%dx%d bc %s: Gillespie event %d is not one molecule moving: %s" % (w, h, d, per, k, diff), key="engine:gillespie-step")
            if dst_[0] not in ref_neighbours(w, h, d, per, src_[0]):
                raise Violation("grid %dx%dx%d bc %s: Gillespie event %d moves a molecule from cell %d to cell %d, which is not one of its neighbours %s" % (
                    w, h, d, per, k, src_[0], dst_[0], sorted(set(ref_neighbours(w, h, d, per, src_[0])))), key="engine:gillespie-neighbours")
    ctx.count("cells", n)


# ---- kinetics functions neighbour relation ---------------------------------------------------------

def strat_kin(ctx):
    def ok(c):
        return c["w"] * c["h"] * c["d"] <= 12
    return st.fixed_dictionaries({"w": st.integers(1, 4), "h": st.integers(1, 4), "d": st.integers(1, 3),
                                  "per": st.lists(st.booleans(), min_size=3, max_size=3),
                                  "cell": st.integers(0, 100)}).filter(ok)


def check_kin(ctx, c):
    w, h, d, per = c["w"], c["h"], c["d"], c["per"]
    n = w * h * d
    i = c["cell"] % n
    ctx.note(c, grid_nontrivial(w, h, d, per), grid_classes(w, h, d, per))
    net = S.RDNetwork([S.Species("A", D=1.0)], [])
    g = S.RDGridSpace(w=w, h=h, d=d, boundary_conditions=bc_dict(per))
    state = [0.0] * n
    state[i] = 8.0
    system = S.RDSystem(net, g, state=state)
    dv = sut_call("compute_dstatedt", K.compute_dstatedt, system)
    got = [float(v) for v in dv.value]
    ref = Counter(j for j in ref_neighbours(w, h, d, per, i) if j != i)
    for j in range(n):
        want = 8.0 * ref.get(j, 0) if j != i else -8.0 * sum(ref.values())
        if abs(got[j] - want) > 1e-9 * 8:
            raise Violation("grid %dx%dx%d bc %s: kinetics derivative from one-hot cell %d: entry %d = %r, reference %r" % (
                w, h, d, per, i, j, got[j], want), key="kinetics:neighbours")


# ---- grid == graph -----------------------------------------------------------------------------------

def strat_graph(ctx):
    return st.fixed_dictionaries({
        "sys": gen.system_spec(variety="mild", space_kind="grid", max_species=3, max_reactions=2, max_order=2,
                               max_cells=18, max_axis=4, chemostats="mixed", count_exp=(0, 2)),
        "route": st.sampled_from(["ctor", "dict"]),
        "with_kinetics": st.booleans(),
    })


def stable_dt(x, sc):
    best = None
    for xv, s in zip(x, sc):
        if s > 0:
            r = max(abs(xv), 1.0) / s
            best = r if best is None else min(best, r)
    if best is None:
        best = 1.0
    return 10.0 ** math.floor(math.log10(best * 0.02))


def check_graph(ctx, c):
    spec = c["sys"]
    sp = spec["space"]
    w, h, d = sp["w"], sp["h"], sp["d"]
    per = [sp["bc"].get(a, "reflecting") == "periodical" for a in "xyz"]
    n = w * h * d
    model = Model(spec)
    x = model.state()
    flags = model.flags()
    dx, sc = model.derivative(x, mask=flags)
    ctx.note(c, grid_nontrivial(w, h, d, per), grid_classes(w, h, d, per) + ["graph_equivalence"])
    system = sut_call("build_system", B.build_system, spec, c["route"])
    graph = sut_call("grid_to_graph", grid_to_graph, system.space)
    if graph.size() != n:
        raise Violation("graph has %d nodes for %d cells" % (graph.size(), n), key="graph:size")
    V = float(F(gen.pf(sp["cell_vol"]["si"])))
    for i, nd in enumerate(graph.nodes):
        if abs(float(si.si_value(nd.volume)) - V) > 1e-12 * V:
            raise Violation("node %d volume %r m3, cell volume %r" % (i, float(si.si_value(nd.volume)), V), key="graph:volume")
        if nd.environment != sp["cell_env"][i]:
            raise Violation("node %d environment %d, cell %d" % (i, nd.environment, sp["cell_env"][i]), key="graph:env")
    want_edges = Counter()
    for i in range(n):
        for j in ref_neighbours(w, h, d, per, i):
            if j != i:
                want_edges[(min(i, j), max(i, j))] += 1
    for k in want_edges:
        want_edges[k] //= 2
    got_edges = Counter()
    for e in graph.edges:
        if e.i == e.j:
            continue  # a periodic axis of length 1 wraps a cell onto itself: not an adjacency of distinct cells
        got_edges[(min(e.i, e.j), max(e.i, e.j))] += 1
        if abs(float(si.si_value(e.surface)) - V ** (2 / 3)) > 1e-12 * V ** (2 / 3):
            raise Violation("edge (%d,%d) surface %r m2, cell face %r" % (e.i, e.j, float(si.si_value(e.surface)), V ** (2 / 3)), key="graph:surface")
        if abs(float(si.si_value(e.distance)) - V ** (1 / 3)) > 1e-12 * V ** (1 / 3):
            raise Violation("edge (%d,%d) distance %r m, cell edge %r" % (e.i, e.j, float(si.si_value(e.distance)), V ** (1 / 3)), key="graph:distance")
    if got_edges != want_edges:
        raise Violation("grid %dx%dx%d bc %s: graph adjacency %s, reference %s" % (
            w, h, d, per, dict(got_edges), dict(want_edges)), key="graph:adjacency")
    gsys = system.copy()
    gsys.space = graph
    from vlib.ratelaw import tame_dt
    dt = tame_dt(model, flags)
    N = 20
    runs = []
    for s_ in (system, gsys):
        runs.append(sut_call("simulate", S.simulate, s_, [0], engine=sim.engine("euler"), sampling_policy="on_iteration",
                             time_step="%r s" % dt, t_max="%r s" % (dt * (N + 0.5))))
    a = [float(v) for v in si.si_values(runs[0].data)]
    b = [float(v) for v in si.si_values(runs[1].data)]
    if len(a) != len(b):
        raise Violation("grid run has %d values, graph run %d" % (len(a), len(b)), key="graph:traj-shape")
    m = n * model.ns
    for k in range(len(a)):
        t = k % m
        bound = max(abs(a[k]), abs(x[t])) + dt * sc[t] * (k // m + 1)
        if abs(a[k] - b[k]) > 1e-9 * bound:
            raise Violation("Euler on grid vs on grid_to_graph: sample %d entry %d: %r vs %r" % (k // m, t, a[k], b[k]),
                            key="graph:trajectory")
    dims = (w, h, d)
    if c["with_kinetics"] and n <= 8 and not any(per[ax] and dims[ax] == 2 for ax in range(3)):
        ka = [float(v) for v in si.si_values(sut_call("compute_dstatedt(grid)", K.compute_dstatedt, system))]
        kb = [float(v) for v in si.si_values(sut_call("compute_dstatedt(graph)", K.compute_dstatedt, gsys))]
        for t in range(m):
            if abs(ka[t] - kb[t]) > 1e-9 * sc[t] + 1e-300:
                raise Violation("compute_dstatedt on grid vs graph: entry %d: %r vs %r" % (t, ka[t], kb[t]), key="graph:kinetics")


RULE = RULE + " " + ('Since seeded round 4 engine_neighbours also runs, from every source cell, one tau-leap step (6400 molecules: non-neighbours must stay empty, neighbours get Poisson(multiplicity x 100) within 7 sigma, total conserved) and 120 Gillespie events (each must move one molecule between two cells that the reference relation calls neighbours); geometry re-checks the neighbour query / pair test on the same object after set_boundary_conditions to two other settings.')

FACETS = [
    Facet("geometry", check_geometry, enumerate=enum_grids, shards=(16, 16)),
    Facet("engine_neighbours", check_engine, enumerate=enum_grids, shards=(16, 16), setup=sim.setup_plain),
    Facet("geometry_large", check_large, strategy=strat_large, examples=(160, 4000), shards=(4, 16)),
    Facet("kinetics_neighbours", check_kin, strategy=strat_kin, examples=(320, 6000), shards=(8, 16)),
    Facet("graph_equivalence", check_graph, strategy=strat_graph, examples=(400, 10000), shards=(8, 16), setup=sim.setup_plain),
]
