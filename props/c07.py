"""C07 Stochastic engines take only legal steps, at the rates of the master equation."""
import math
from fractions import Fraction as F

from hypothesis import strategies as st

from vlib import gen, si, sim
from vlib import build_model as B
from vlib.ratelaw import Model
from vlib.runner import Facet, Violation, sut_call
from vlib import sut  # noqa: F401
import strengths as S

PROPERTY = "C07"
RULE = ("Hypothesis systems (orders 0..3 with repeated reactants, environment-specific constants incl. "
        "zeros, grids with every boundary mix incl. periodic axes of length 1 and 2, multigraphs, chemostat "
        "maps, default redistribution of the initial state) x seeds, sampled on every iteration. legality "
        "(Gillespie): for every step the state difference must equal the chemostat-masked effect of one "
        "channel (one reaction direction in one cell / one molecule between two neighbouring cells) whose "
        "reference propensity in the state before is positive; states stay non-negative integers; time "
        "strictly increases; the run stops exactly when the total reference propensity is zero or t > t_max. "
        "gillespie_rates: sum_k a0(x_k)(t_k+1 - t_k) against Gamma(N,1), and for every event class C (net "
        "change vector of a reaction, or species for diffusion) sum_k (1[event in C] - a_C/a0) against its "
        "martingale variance. combinatorial: n A (+B) -> P from n..n+6 molecules per cell over 150 seeds: waiting times (Gillespie) and one-step firing counts (tau-leap) against k V^(1-n) x(x-1)..(x-n+1). tauleap_chemostat_diffusion: the same increments test on pure-diffusion systems with a chemostat map. tauleap_rates: for linear functionals w of the state, increments minus dt sum_c "
        "(w.v_c) a_c(x_k) tested for mean and Poisson dispersion. |z| < 7. Non-trivial: >= 200 steps with >= "
        "3 event classes fired (legality); every (run, class) test with expected count >= 100 (rates).")
ASSUMPTIONS = ["reference propensities from vlib/ratelaw.py (falling factorials x k V^(1-n); first-order diffusion constants)",
               "runs whose null channels (self-directed or fully chemostat-masked) have positive propensity are "
               "excluded from the rate statistics: the master equation leaves their treatment open",
               "deviations below ~7/sqrt(N) relative are below the tests' power"]


class Channels:
    """All channels of a system with their chemostat-masked effects."""

    def __init__(self, model, flags):
        self.m = model
        n, ns = model.n, model.ns
        self.flags = flags
        self.list = []   # (kind, key, cell, effect dict {index: delta}, class key, data)
        for ci, ch in enumerate(model.channels):
            q, p, kk, ri, direction = ch
            net = tuple(p[s] - q[s] for s in range(ns))
            for i in range(n):
                if kk[i] == 0:
                    continue
                eff = {}
                for s in range(ns):
                    if net[s] and not flags[s * n + i]:
                        eff[s * n + i] = net[s]
                self.list.append(("r", ci, i, eff, ("reaction", net), ch))
        for t, ((i, j, _, _), krow) in enumerate(zip(model.slots, model.kslot)):
            for s in range(ns):
                if krow[s] == 0:
                    continue
                eff = {}
                if i != j:
                    if not flags[s * n + i]:
                        eff[s * n + i] = -1
                    if not flags[s * n + j]:
                        eff[s * n + j] = eff.get(s * n + j, 0) + 1
                self.list.append(("d", t, i, eff, ("diffusion", s), (s, krow[s])))

    def propensity(self, c, x):
        kind, key, i, eff, cls, data = c
        if kind == "r":
            return self.m.propensity(data, i, x)
        s, k = data
        return k * x[s * self.m.n + i]


@st.composite
def sys_case(draw, stats=False, low=False, chem_diffusion=False):
    spec = draw(gen.system_spec(variety="default", max_species=3, max_reactions=3, max_order=3, max_cells=6 if stats else 8,
                                max_axis=3, chemostats="mixed" if not stats else ("map" if chem_diffusion else "none"),   # a chemostated reactant breaks mass balance (unbounded growth); pure diffusion is safe
                                state="explicit", count_exp=(1, 2) if not stats else ((0, 1) if low else (2, 3)), rate_exp=(-1, 0), simple_graph=stats,
                                min_reactions=0 if (not stats or chem_diffusion) else 1, max_reactions_override=0 if chem_diffusion else None))
    if stats:
        # avoid periodic axes of length 1 (self-directed channels are null events)
        sp = spec["space"]
        if sp["type"] == "grid":
            dims = {"x": sp["w"], "y": sp["h"], "z": sp["d"]}
            sp["bc"] = {a: v for a, v in sp["bc"].items() if not (v == "periodical" and dims[a] == 1)}
    if stats:
        # mass-balanced reactions (as in C02): total mass is conserved, so no population can blow up
        # during a fixed-step run (an exploding tau-leap run is a user error, not a valid script)
        from props.c02 import balanced_reaction
        labels = [s_["label"] for s_ in spec["species"]]
        masses = {lb: (1 if i == 0 else draw(st.integers(1, 2))) for i, lb in enumerate(labels)}
        for r in spec["reactions"]:
            nf0, nb0 = sum(r["sub"].values()), sum(r["prod"].values())
            sub, prod = draw(balanced_reaction(labels, masses))
            nf, nb = sum(sub.values()), sum(prod.values())
            sp_ = spec["space"]
            v0 = gen.pf(sp_["cell_vol"]["si"]) if sp_["type"] == "grid" else gen.pf(sp_["nodes"][0]["vol"]["si"])

            def rescale(v, old, new):
                # keep the per-cell constant c = k V^(1-n) while changing the order
                def one(q):
                    c_ = gen.pf(q["si"]) * v0 ** (1 - old) * F(10) ** (-3 * max(0, new - 1) + 3 * max(0, old - 1))
                    return dict(q, si=gen.fs(c_ * v0 ** (new - 1)))
                return one(v) if B.is_qv(v) else {k_: one(q_) for k_, q_ in v.items()}
            r["kf"], r["kr"] = rescale(r["kf"], nf0, nf), rescale(r["kr"], nb0, nb)
            r["sub"], r["prod"] = sub, prod
    vals = [gen.fs(round(F(v))) for v in spec["state"]["values"]]
    spec = dict(spec, state={"values": vals, "units": "molecule"})
    return {"sys": spec, "seed": draw(st.integers(0, 2 ** 32 - 1)), "route": draw(st.sampled_from(["ctor", "dict"])),
            "mode": draw(st.sampled_from(["auto", "none"])),
            # the unit system of the script / output: the physics (propensities in molecules and seconds) must not depend on it
            "out": draw(st.sampled_from([dict(si.DEFAULT_SYS), dict(si.DEFAULT_SYS)])) if draw(st.booleans()) else draw(gen.us_mild)}


def run_engine(c, kind, n_iter, dt=1e-3, tmax=None):
    system = B.build_system(c["sys"], c["route"])
    script = S.RDScript(system, [0], time_step="%r s" % dt, t_max="%r s" % (1e9 if tmax is None else tmax), sampling_policy="on_iteration",
                        rng_seed=c["seed"], init_state_processing=c["mode"], units_system=B.US(c.get("out", si.DEFAULT_SYS)))
    return sim.drive(script, kind, n_iter)


def to_int_states(traj, n):
    """times in seconds, states in molecules (whole numbers restored after the unit conversion of the output)"""
    t = si.si_floats(traj.t)
    raw = si.si_floats(traj.data)
    states = []
    for k in range(len(t)):
        row = []
        for v in raw[k * n:(k + 1) * n]:
            r = round(v)
            row.append(float(r) if abs(v - r) <= 1e-9 * max(1.0, abs(v)) else v)
        states.append(row)
    return t, states


# ---- legality (Gillespie) -------------------------------------------------------------------------------

def strat_legal(ctx):
    return st.fixed_dictionaries({"case": sys_case(False), "steps": st.integers(200, 1500), "tmax_frac": st.sampled_from([None, None, 0.5])})


def check_legal(ctx, cc):
    c = cc["case"]
    spec = c["sys"]
    model = Model(spec)
    flags = model.flags()
    n, ns = model.n, model.ns
    N = n * ns
    chans = Channels(model, flags)
    traj, done, complete = sut_call("gillespie run", run_engine, c, "gillespie", cc["steps"])
    t, states = to_int_states(traj, N)
    fired = set()
    if len(states) < 1:
        raise Violation("no sample at t = 0", key="legal:shape")
    # index channels by cell for quick look-up
    for k, x in enumerate(states):
        for idx, v in enumerate(x):
            if v < 0 or v != int(v):
                raise Violation("state %d entry %d is %r (not a non-negative integer)" % (k, idx, v), key="legal:integer")
    for k in range(len(states) - 1):
        x, y = states[k], states[k + 1]
        if not t[k + 1] > t[k]:
            raise Violation("time does not strictly increase: t[%d]=%r, t[%d]=%r" % (k, t[k], k + 1, t[k + 1]), key="legal:time")
        delta = {i: y[i] - x[i] for i in range(N) if y[i] != x[i]}
        ok = False
        for ch in chans.list:
            if ch[3] == delta and chans.propensity(ch, x) > 0:
                ok = True
                fired.add(ch[4])
                break
        if not ok:
            desc = {"(species %d, cell %d)" % (i // n, i % n): int(v) for i, v in delta.items()}
            near = [(ch[0], ch[2], ch[4]) for ch in chans.list if ch[3] == delta][:3]
            raise Violation("Gillespie step %d (t=%r): state change %s is not the effect of any channel with positive propensity in the state before "
                            "(channels with that effect: %s; state before %s; chemostat map %s)" % (k, t[k + 1], desc or "none", near, [int(v) for v in x], flags),
                            key="legal:step")
    # termination
    a0_last = sum(chans.propensity(ch, states[-1]) for ch in chans.list)
    if complete and done == len(states):
        # the last iterate() produced no sample: the engine saw a total propensity of zero
        if a0_last > 0:
            raise Violation("the run stopped after %d events although the total reference propensity is %r in its last state %s" % (
                len(states) - 1, a0_last, [int(v) for v in states[-1]]), key="legal:died-early")
    if not complete and a0_last == 0 and done == cc["steps"]:
        pass  # the next iterate() would report completion; nothing to assert yet
    ctx.note(cc, len(states) - 1 >= 200 and len(fired) >= 3,
             ["space:" + spec["space"]["type"], "classes-fired:%d" % min(len(fired), 5)] + (["chemostats"] if any(flags) else []) +
             (["died-early"] if complete and done == len(states) else []))
    ctx.count("gillespie_steps_checked", len(states) - 1)


# ---- Gillespie rates ---------------------------------------------------------------------------------------

def strat_grates(ctx):
    # low molecule numbers make the combinatorial factors x(x-1).. matter; high ones give the class tests power
    return st.fixed_dictionaries({"case": st.one_of(sys_case(True, low=True), sys_case(True, low=False)), "steps": st.sampled_from([3000, 6000])})


def check_grates(ctx, cc):
    c = cc["case"]
    spec = c["sys"]
    model = Model(spec)
    flags = model.flags()
    n, ns = model.n, model.ns
    N = n * ns
    chans = Channels(model, flags)
    traj, done, complete = sut_call("gillespie run", run_engine, c, "gillespie", cc["steps"])
    t, states = to_int_states(traj, N)
    K = len(states) - 1
    classes = sorted({ch[4] for ch in chans.list if ch[3]}, key=str)
    Ssum = 0.0
    stat = {cl: [0.0, 0.0, 0.0] for cl in classes}   # sum(ind - p), sum p(1-p), expected count
    joint = {cl: [0.0, 0] for cl in classes}          # per fired class: sum (a0 dt - 1), number of events
    usable = True
    for k in range(K):
        x, y = states[k], states[k + 1]
        a = [(ch, chans.propensity(ch, x)) for ch in chans.list]
        a0 = sum(v for _, v in a)
        if any(v > 0 and not ch[3] for ch, v in a):
            usable = False   # a null channel is active: the master equation leaves its treatment open
            break
        if a0 <= 0:
            break
        Ssum += a0 * (t[k + 1] - t[k])
        delta = {i: y[i] - x[i] for i in range(N) if y[i] != x[i]}
        hit = {ch[4] for ch, v in a if v > 0 and ch[3] == delta}
        if len(hit) != 1:
            usable = False   # illegal (C07 legality reports it) or ambiguous between two classes
            break
        ev = next(iter(hit))
        # waiting time and event choice are independent: a0 dt is Exp(1) whatever class fires
        joint[ev][0] += a0 * (t[k + 1] - t[k]) - 1.0
        joint[ev][1] += 1
        for cl in classes:
            p = sum(v for ch, v in a if ch[4] == cl and ch[3]) / a0
            stat[cl][0] += (1.0 if cl == ev else 0.0) - p
            stat[cl][1] += p * (1 - p)
            stat[cl][2] += p
    tests = 0
    if usable and K >= 500:
        z = (Ssum - K) / math.sqrt(K)
        tests += 1
        if abs(z) > 7:
            raise Violation("Gillespie waiting times: sum a0(x_k) dt_k = %r over %d events (z = %.1f): waiting times do not follow the total propensity" % (
                Ssum, K, z), key="rates:waiting-time")
        for cl in classes:
            d, var, exp_ = stat[cl]
            if exp_ >= 100 and var > 0:
                tests += 1
                z = d / math.sqrt(var)
                if abs(z) > 7:
                    raise Violation("Gillespie event frequencies: class %s fired %.0f times more than the %.1f expected from the propensities "
                                    "over %d events (z = %.1f)" % (cl, d, exp_, K, z), key="rates:class-frequency")
        for cl in classes:
            sj, nj = joint[cl]
            if nj >= 300:
                tests += 1
                z = sj / math.sqrt(nj)
                if abs(z) > 7:
                    raise Violation("Gillespie: the waiting times that precede events of class %s have mean a0 dt = %.3f over %d events (z = %.1f); "
                                    "a0 dt is Exp(1) independently of which event fires" % (cl, 1.0 + sj / nj, nj, z), key="rates:waiting-time-given-class")
    ctx.note(cc, tests >= 2, ["gillespie-rate-tests:%d" % min(tests, 6), "space:" + spec["space"]["type"]] + ([] if usable else ["excluded:null-or-ambiguous"]))
    ctx.count("rate_tests", tests)


# ---- tau-leap rates ------------------------------------------------------------------------------------------

def strat_trates(ctx):
    # bounded length: with ~1 % change per step an autocatalytic network grows by at most e^10 over the run,
    # which keeps molecule numbers far inside the int range of the engine's Poisson sampler
    return st.fixed_dictionaries({"case": sys_case(True), "steps": st.sampled_from([500, 1000])})


def strat_tchem(ctx):
    # pure diffusion with a chemostat map: chemostated cells are sources and sinks, arrivals and departures of
    # their unflagged neighbours must still follow the first-order diffusion propensities
    return st.fixed_dictionaries({"case": sys_case(True, chem_diffusion=True), "steps": st.sampled_from([500, 1000])})


def check_trates(ctx, cc):
    c = cc["case"]
    spec = c["sys"]
    model = Model(spec)
    flags = model.flags()
    n, ns = model.n, model.ns
    N = n * ns
    chans = Channels(model, flags)
    from vlib.ratelaw import tame_dt
    # a time step that changes no entry by more than ~1 % per step (a coarser one makes fixed-step tau-leap
    # populations oscillate and explode, which is a user error rather than a valid script)
    dt = cc["dt"] if cc.get("dt") else tame_dt(model, flags, frac=0.01)
    traj, done, complete = sut_call("tau-leap run", run_engine, c, "tauleap", cc["steps"], dt)
    t, states = to_int_states(traj, N)
    K = len(states) - 1
    # functionals: total of each species over unflagged entries; and over the first half of the cells
    ws = []
    for s in range(ns):
        ws.append(("total of species %d" % s, {s * n + i: 1 for i in range(n) if not flags[s * n + i]}))
        if n >= 2:
            ws.append(("species %d in the first half of the cells" % s, {s * n + i: 1 for i in range(n // 2) if not flags[s * n + i]}))
    acc = [[0.0, 0.0, 0.0, 0.0] for _ in ws]   # sum Y, sum k2, sum (Y^2 - k2), sum (k4 + 2 k2^2)
    used = 0
    for k in range(K):
        x, y = states[k], states[k + 1]
        if any(v < 0 for v in x) or any(v != int(v) for v in y):
            break
        a = [(ch, chans.propensity(ch, x)) for ch in chans.list]
        used += 1
        for wi, (_, w) in enumerate(ws):
            mean = k2 = k4 = 0.0
            for ch, v in a:
                if v <= 0 or not ch[3]:
                    continue
                wv = sum(w.get(i, 0) * dlt for i, dlt in ch[3].items())
                if wv:
                    mean += wv * v
                    k2 += wv * wv * v
                    k4 += wv ** 4 * v
            mean *= dt
            k2 *= dt
            k4 *= dt
            Y = sum(wt * (y[i] - x[i]) for i, wt in w.items()) - mean
            acc[wi][0] += Y
            acc[wi][1] += k2
            acc[wi][2] += Y * Y - k2
            acc[wi][3] += k4 + 2 * k2 * k2
    tests = 0
    for (name, _), (sy, sk2, sd, sv) in zip(ws, acc):
        if sk2 >= 100 and used >= 300:
            tests += 2
            z1 = sy / math.sqrt(sk2)
            if abs(z1) > 7:
                raise Violation("tau-leap: %s drifts by %.1f from the propensity-predicted mean over %d steps of %r s (z = %.1f)" % (
                    name, sy, used, dt, z1), key="tauleap:mean")
            z2 = sd / math.sqrt(sv) if sv > 0 else 0.0
            if abs(z2) > 7:
                raise Violation("tau-leap: increments of %s are not Poisson-dispersed (sum (Y^2 - var) = %.1f, z = %.1f over %d steps)" % (
                    name, sd, z2, used), key="tauleap:dispersion")
    ctx.note(cc, tests >= 2, ["tauleap-rate-tests:%d" % min(tests, 8), "space:" + spec["space"]["type"]])
    ctx.count("rate_tests", tests)
    # legality of tau-leap states: integers, chemostated entries handled by C03
    for k, x in enumerate(states):
        if any(v != int(v) for v in x):
            raise Violation("tau-leap state %d holds a non-integer molecule number" % k, key="tauleap:integer")


# ---- zero-order production into empty cells (birth-death, with diffusion) ---------------------------------------

@st.composite
def birth_case(draw):
    """Species appear from nothing (` -> A`, per-environment constant possibly zero) in cells that start EMPTY, decay
    (`A -> `) and diffuse. Linear, hence bounded (steady state lambda/delta molecules per cell); the step is chosen here:
    lambda = k0 V dt births per step in the reference cell, delta = k1 dt <= 0.01."""
    base = draw(gen.system_spec(variety="default", max_species=2, max_reactions=0, max_cells=6, max_axis=3, chemostats="none",
                                state="explicit", count_exp=(0, 1), rate_exp=(-1, 0), simple_graph=True))
    sp = base["space"]
    if sp["type"] == "grid":
        dims = {"x": sp["w"], "y": sp["h"], "z": sp["d"]}
        sp["bc"] = {a: v for a, v in sp["bc"].items() if not (v == "periodical" and dims[a] == 1)}
    v0 = gen.pf(sp["cell_vol"]["si"]) if sp["type"] == "grid" else gen.pf(sp["nodes"][0]["vol"]["si"])
    model0 = Model(dict(base, reactions=[]))
    kmax = max([k for row in model0.kslot for k in row] + [0.0])
    dt = 1e-3
    while kmax * dt > 0.02:
        dt /= 10.0
    dtf = F(dt).limit_denominator(10 ** 12)
    labels = [s_["label"] for s_ in base["species"]]
    envs = base["env"]

    def q(v):
        return {"si": gen.fs(v), "form": "bare", "sys": dict(gen.DEFAULT), "style": 0}
    reactions = []
    for lb in labels:
        lam = F(draw(st.sampled_from([1, 2, 5, 10, 20])), 10)
        delta = F(draw(st.sampled_from([1, 2, 5, 10])), 1000)
        k0 = lam / (v0 * dtf)
        if len(envs) >= 2 and draw(st.booleans()):
            kf = {envs[0]: q(k0), "default": q(0 if draw(st.booleans()) else k0 / 2)}
        else:
            kf = q(k0)
        units = {"mode": "omit", "sys": dict(base["net_units"]["sys"])}
        reactions.append({"sub": {}, "prod": {lb: 1}, "units": dict(units), "kf": kf, "kr": q(0), "label": None, "eq_form": "str"})
        reactions.append({"sub": {lb: 1}, "prod": {}, "units": dict(units), "kf": q(delta / dtf), "kr": q(0), "label": None, "eq_form": "str"})
    n_entries = len(labels) * gen.space_size(sp)
    start = draw(st.sampled_from(["empty", "empty", "some-empty"]))
    if start == "empty":
        vals = ["0/1"] * n_entries
    else:
        vals = [gen.fs(round(F(v))) if draw(st.booleans()) else "0/1" for v in base["state"]["values"]]
    spec = dict(base, reactions=reactions, state={"values": vals, "units": "molecule"})
    return {"case": {"sys": spec, "seed": draw(st.integers(0, 2 ** 32 - 1)), "route": draw(st.sampled_from(["ctor", "dict"])),
                     "mode": draw(st.sampled_from(["auto", "none"])),
                     "out": dict(si.DEFAULT_SYS) if draw(st.booleans()) else draw(gen.us_mild)},
            "engine": draw(st.sampled_from(["tauleap", "tauleap", "gillespie"])), "dt": dt,
            "steps": draw(st.sampled_from([500, 1000]))}


def strat_birth(ctx):
    return birth_case()


def check_birth(ctx, cc):
    if cc["engine"] == "tauleap":
        return check_trates(ctx, cc)
    return check_grates(ctx, dict(cc, steps=cc["steps"] * 6))


# ---- combinatorial factors at very small molecule numbers ------------------------------------------------

def strat_comb(ctx):
    return st.fixed_dictionaries({"n": st.sampled_from([2, 2, 3]), "extra": st.sampled_from(["", "B"]), "x0": st.integers(0, 6),
                                  "space": st.sampled_from(["grid", "graph"]), "cells": st.integers(1, 3), "vol": st.sampled_from([0.5, 1.0, 2.0, 8.0]),
                                  "k": st.sampled_from([0.25, 1.0, 3.0]), "seed0": st.integers(0, 2 ** 31), "engine": st.sampled_from(["gillespie", "gillespie", "tauleap"])})


def check_comb(ctx, c):
    """n A (+ B) -> P in a few isolated cells, starting with n + x0 molecules of A per cell: the propensity is
    k V^(1-order) x (x-1) .. (x-n+1) (y): its combinatorial factor dominates at these numbers."""
    n = c["n"]
    order = n + (1 if c["extra"] else 0)
    eq = "%d A%s -> P" % (n, " + B" if c["extra"] else "")
    species = [S.Species("A"), S.Species("B"), S.Species("P")]
    net = S.RDNetwork(species, [S.Reaction(eq, kf=c["k"])])
    nc = c["cells"]
    if c["space"] == "grid":
        space = S.RDGridSpace(w=nc, cell_vol=c["vol"])
    else:
        space = S.RDGraphSpace(nodes=[S.RDGraphSpaceNode(volume=c["vol"]) for _ in range(nc)], edges=[])
    xa = n + c["x0"]
    state = [xa] * nc + [3] * nc + [0] * nc
    system = S.RDSystem(net, space, state=state)
    ctx.note(c, True, ["combinatorial:n=%d" % n, "combinatorial:" + c["engine"], "space:" + c["space"]])
    M = 150
    kv = c["k"] * c["vol"] ** (1 - order)

    def prop(a, b):
        v = kv
        for m in range(n):
            v *= max(a - m, 0)
        if c["extra"]:
            v *= b
        return v
    if c["engine"] == "gillespie":
        Ssum, N = 0.0, 0
        for j in range(M):
            script = S.RDScript(system, [0], t_max=1e9, sampling_policy="on_iteration", rng_seed=(c["seed0"] + 7919 * j) % 2 ** 32,
                                init_state_processing="none")
            traj, done, complete = sut_call("gillespie run", sim.drive, script, "gillespie", 40)
            t = [float(v) for v in traj.t.value]
            d = [float(v) for v in traj.data.value]
            for k in range(len(t) - 1):
                x = d[k * 3 * nc:(k + 1) * 3 * nc]
                a0 = sum(prop(x[i], x[nc + i]) for i in range(nc))
                if a0 <= 0:
                    raise Violation("%s with %s: an event happened although the reference propensity is 0 in state %s" % (eq, x[:nc], x), key="comb:legal")
                Ssum += a0 * (t[k + 1] - t[k])
                N += 1
            last = d[(len(t) - 1) * 3 * nc:]
            if complete and sum(prop(last[i], last[nc + i]) for i in range(nc)) > 0:
                raise Violation("%s: the run stopped in state %s whose reference propensity is positive" % (eq, last), key="comb:died-early")
        if N >= 200:
            z = (Ssum - N) / math.sqrt(N)
            ctx.count("rate_tests", 1)
            if abs(z) > 7:
                raise Violation("Gillespie, %s from %d A per cell (V=%r, k=%r): sum a0 dt = %.1f over %d events of %d seeds (z = %.1f): "
                                "the propensity is not k V^(1-n) x(x-1)..(x-n+1)" % (eq, xa, c["vol"], c["k"], Ssum, N, M, z), key="comb:waiting-time")
    else:
        # tau-leap: number of firings in ONE step from the known initial state is Poisson(a dt)
        a_cell = prop(xa, 3)
        if a_cell <= 0:
            return
        dt = 0.2 / a_cell
        tot, N = 0.0, 0
        for j in range(M):
            script = S.RDScript(system, [0], time_step=dt, t_max=1e9, sampling_policy="on_iteration",
                                rng_seed=(c["seed0"] + 7919 * j) % 2 ** 32, init_state_processing="none")
            traj, done, complete = sut_call("tau-leap run", sim.drive, script, "tauleap", 1)
            d = [float(v) for v in traj.data.value]
            x1 = d[3 * nc:6 * nc]
            for i in range(nc):
                tot += x1[2 * nc + i]      # P produced in cell i = number of firings
                N += 1
        mean = 0.2 * N
        z = (tot - mean) / math.sqrt(mean)
        ctx.count("rate_tests", 1)
        if abs(z) > 7:
            raise Violation("tau-leap, %s from %d A per cell: %d firings in %d single steps, expected %.1f (z = %.1f)" % (eq, xa, tot, N, mean, z),
                            key="comb:tauleap-mean")


RULE = RULE + " " + ('Since seeded round 4 facet birth_death: species appear from nothing (` -> A`, per-environment constants incl. zero) in cells that start EMPTY, decay and diffuse, on grids and graphs; tau-leap increments (mean and dispersion) and Gillespie waiting times / class frequencies are tested exactly as in the rate facets, with the step chosen so that lambda = k0 V dt is 0.1..2 births per step.')

RULE = RULE + " " + ('Since seeded round 5 gillespie_rates (and birth_death) also test, per event class with >= 300 firings, that a0 dt of the waiting times that precede events of that class has mean 1 (waiting time and event choice are independent).')

FACETS = [
    Facet("legality", check_legal, strategy=strat_legal, examples=(640, 12000), shards=(16, 16), setup=sim.setup_plain, native=True, shrink=False),
    Facet("gillespie_rates", check_grates, strategy=strat_grates, examples=(320, 6400), shards=(16, 16), setup=sim.setup_plain, native=True, shrink=False),
    Facet("combinatorial", check_comb, strategy=strat_comb, examples=(96, 2400), shards=(16, 16), setup=sim.setup_plain, native=True, shrink=False),
    Facet("tauleap_chemostat_diffusion", check_trates, strategy=strat_tchem, examples=(320, 4800), shards=(8, 16), setup=sim.setup_plain, native=True, shrink=False),
    Facet("birth_death", check_birth, strategy=strat_birth, examples=(320, 4800), shards=(8, 16), setup=sim.setup_plain, native=True, shrink=False),
    Facet("tauleap_rates", check_trates, strategy=strat_trates, examples=(640, 9600), shards=(16, 16), setup=sim.setup_plain, native=True, shrink=False),
]
