"""C06 Unit conversion is exact SI scaling and composes."""
from fractions import Fraction as F

from hypothesis import strategies as st

from vlib import si
from vlib.runner import Facet, Violation, must_raise, sut_call
from vlib import sut  # noqa: F401  (imports strengths from the tree under test)
import strengths as S
from strengths import units as U

PROPERTY = "C06"
RULE = ("facet table: exhaustive enumeration of every ordered pair of symbols of one base kind x "
        "exponent -6..6 (other exponents 0), and the 7 litre / 9 molar symbols against their "
        "documented decomposition; facet generated: Hypothesis triples of unit systems x dimension "
        "vectors in [-4,4]^3 x scalar/array x target form (string in two spellings, Units, UnitValue, "
        "UnitsSystem, dict); oracle = exact Fraction SI factor (rtol 1e-12). Non-trivial: source and "
        "destination differ on a base whose exponent is non-zero; distinct = digest of the case.")
ASSUMPTIONS = ["SI table in vlib/si.py (written from SI definitions and the documentation table)",
               "values are finite doubles with 1e-6 <= |v| <= 1e6 so no overflow/underflow occurs"]
EXHAUSTIVE_PART = "facet 'table': all same-kind symbol pairs x exponents -6..6; all litre/molar symbols"
RTOL = F(1, 10 ** 12)


def close(got, want, rtol=RTOL):
    got, want = F(got), F(want)
    return abs(got - want) <= rtol * abs(want)


def mk_sys(d):
    return S.UnitsSystem(space=d["space"], time=d["time"], quantity=d["quantity"])


def mk_dim(d):
    return S.UnitsDimensions(space=d["space"], time=d["time"], quantity=d["quantity"])


def mk_units(sysd, dimd):
    return S.Units(mk_sys(sysd), mk_dim(dimd))


# ------------------------------------------------------------------------------------------------
# exhaustive table


def enum_table(ctx):
    for kind in si.KINDS:
        for a in si.SYMS[kind]:
            for b in si.SYMS[kind]:
                for e in range(-6, 7):
                    yield {"t": "pair", "kind": kind, "a": a, "b": b, "e": e}
    for sym in si.LITRE:
        for e in (-2, -1, 1, 2):
            yield {"t": "litre", "sym": sym, "e": e}
    for sym in si.MOLAR:
        for e in (-2, -1, 1, 2):
            yield {"t": "molar", "sym": sym, "e": e}


def check_table(ctx, c):
    if c["t"] == "pair":
        src = dict(si.DEFAULT_SYS)
        dst = dict(si.DEFAULT_SYS)
        src[c["kind"]] = c["a"]
        dst[c["kind"]] = c["b"]
        dim = {"space": 0, "time": 0, "quantity": 0}
        dim[c["kind"]] = c["e"]
        want = si.factor(src, dst, dim)
        ctx.note(c, c["a"] != c["b"] and c["e"] != 0, ["table:" + c["kind"]])
        v = sut_call("convert", lambda: S.UnitValue(3.0, mk_units(src, dim)).convert(mk_units(dst, dim)))
        if not close(v.value, 3 * want):
            raise Violation("3 %s^%d -> %s^%d gave %r, exact %s" % (
                c["a"], c["e"], c["b"], c["e"], v.value, float(3 * want)), key="table:factor")
        if si.dimdict(v.units.dim) != dim or si.sysdict(v.units.sys)[c["kind"]] != c["b"]:
            raise Violation("converted units wrong: %s" % v.units, key="table:units")
        f = sut_call("factor", U.compute_conversion_factor, mk_sys(src), mk_sys(dst), mk_dim(dim))
        if not close(f, want):
            raise Violation("compute_conversion_factor(%s->%s, e=%d) = %r, exact %s" % (
                c["a"], c["b"], c["e"], f, float(want)), key="table:ccf")
        # string route, where the exponent is non-zero (string carries the symbol)
        if c["e"] != 0:
            s_src = c["a"] + ("" if c["e"] == 1 else str(c["e"]))
            s_dst = c["b"] + ("" if c["e"] == 1 else str(c["e"]))
            v2 = sut_call("convert-str", lambda: S.UnitValue(3.0, s_src).convert(s_dst))
            if not close(v2.value, 3 * want):
                raise Violation("UnitValue(3,'%s').convert('%s') = %r, exact %s" % (
                    s_src, s_dst, v2.value, float(3 * want)), key="table:str")
    else:
        e = c["e"]
        sym = c["sym"]
        s = sym + ("" if e == 1 else str(e))
        if c["t"] == "litre":
            si_scale = si.SPACE[si.LITRE[sym]] ** (3 * e)
            dim = {"space": 3 * e, "time": 0, "quantity": 0}
        else:
            q, sp = si.MOLAR[sym]
            si_scale = (si.QUANTITY[q] / si.SPACE[sp] ** 3) ** e
            dim = {"space": -3 * e, "time": 0, "quantity": e}
        ctx.note(c, True, ["table:" + c["t"]])
        v = sut_call("derived", lambda: S.UnitValue(2.0, s))
        if si.dimdict(v.units.dim) != dim:
            raise Violation("'%s' parsed with dimension %s, expected %s" % (s, v.units.dim, dim),
                            key="table:derived-dim")
        if not close(si.si_value(v), 2 * si_scale):
            raise Violation("'2 %s' has SI value %s, expected %s" % (
                s, float(si.si_value(v)), float(2 * si_scale)), key="table:derived-scale")
        # and conversion to plain metre / molecule units
        tgt = mk_units({"space": "m", "time": "s", "quantity": "molecule"}, dim)
        w = sut_call("derived-convert", lambda: v.convert(tgt))
        if not close(w.value, 2 * si_scale):
            raise Violation("'2 %s' -> SI base gave %r, expected %s" % (s, w.value, float(2 * si_scale)),
                            key="table:derived-convert")


# ------------------------------------------------------------------------------------------------
# generated

sys_st = st.fixed_dictionaries({"space": st.sampled_from(si.SPACE_SYMS),
                                "time": st.sampled_from(si.TIME_SYMS),
                                "quantity": st.sampled_from(si.QUANTITY_SYMS)})
dim_st = st.fixed_dictionaries({k: st.integers(-4, 4) for k in si.KINDS})
val_st = st.builds(lambda m, s: m * s, st.floats(1e-6, 1e6, allow_nan=False), st.sampled_from([1.0, -1.0]))


def gen_strategy(ctx):
    return st.fixed_dictionaries({
        "src": sys_st, "dst": sys_st, "mid": sys_st, "dim": dim_st,
        "values": st.lists(val_st, min_size=1, max_size=4),
        "array": st.booleans(),
        "form": st.sampled_from(["str0", "str1", "str2", "units", "unitvalue", "system", "dict"]),
        "other_dim": dim_st,
    })


def _mk(c, sysd):
    u = mk_units(sysd, c["dim"])
    if c["array"]:
        return S.UnitArray(list(c["values"]), u)
    return S.UnitValue(c["values"][0], u)


def _vals(q):
    if isinstance(q, S.UnitArray):
        return [float(x) for x in q.value]
    return [q.value]


def _target(c, sysd, form):
    if form == "str0":
        return si.unit_str(sysd, c["dim"], 0)
    if form == "str1":
        return si.unit_str(sysd, c["dim"], 1)
    if form == "str2":
        return si.unit_str(sysd, c["dim"], 2)
    if form == "units":
        return mk_units(sysd, c["dim"])
    if form == "unitvalue":
        return S.UnitValue(1.0, mk_units(sysd, c["dim"]))
    if form == "system":
        return mk_sys(sysd)
    return dict(sysd)


def check_generated(ctx, c):
    dim = c["dim"]
    differs = [k for k in si.KINDS if dim[k] != 0 and c["src"][k] != c["dst"][k]]
    classes = ["form:" + c["form"], "array" if c["array"] else "scalar", "ndiff:%d" % len(differs)]
    ctx.note(c, bool(differs), classes)
    vals = c["values"] if c["array"] else c["values"][:1]
    q = _mk(c, c["src"])
    f_sd = si.factor(c["src"], c["dst"], dim)
    # direct conversion in the drawn target form
    tgt = _target(c, c["dst"], c["form"])
    r = sut_call("convert", q.convert, tgt)
    if type(r) is not type(q):
        raise Violation("convert changed the type: %s -> %s" % (type(q).__name__, type(r).__name__),
                        key="gen:type")
    if si.dimdict(r.units.dim) != dim:
        raise Violation("conversion changed the dimension %s -> %s" % (dim, r.units.dim), key="gen:dim")
    for k in si.KINDS:
        if dim[k] != 0 and r.units.sys[k] != c["dst"][k]:
            raise Violation("result expressed in %s, asked %s" % (r.units.sys[k], c["dst"][k]),
                            key="gen:sys")
    for got, v in zip(_vals(r), vals):
        if not close(got, F(v) * f_sd):
            raise Violation("convert(%r %s -> %s, form %s) = %r, exact %r" % (
                v, si.unit_str(c["src"], dim), si.unit_str(c["dst"], dim), c["form"], got,
                float(F(v) * f_sd)), key="gen:factor")
    # convert_value / compute_conversion_factor agree with the method
    cv = sut_call("convert_value", U.convert_value, vals[0], mk_sys(c["src"]), mk_sys(c["dst"]), mk_dim(dim))
    if not close(cv, F(vals[0]) * f_sd):
        raise Violation("convert_value = %r, exact %r" % (cv, float(F(vals[0]) * f_sd)), key="gen:convert_value")
    # round trip and composition through an intermediate system
    back = sut_call("convert-back", r.convert, mk_units(c["src"], dim))
    for got, v in zip(_vals(back), vals):
        if not close(got, v):
            raise Violation("round trip %r -> %r" % (v, got), key="gen:roundtrip")
    via = sut_call("convert-via", lambda: q.convert(mk_units(c["mid"], dim)).convert(mk_units(c["dst"], dim)))
    for got, d in zip(_vals(via), _vals(r)):
        if not close(got, d):
            raise Violation("via intermediate %r != direct %r" % (got, d), key="gen:compose")
    # identity
    same = sut_call("convert-same", q.convert, mk_units(c["src"], dim))
    if _vals(same) != [float(v) for v in vals]:
        raise Violation("conversion to the same system changed the value: %r -> %r" % (vals, _vals(same)),
                        key="gen:identity")
    # another dimension must be refused (forms that carry a dimension)
    od = c["other_dim"]
    if od != dim:
        ou = mk_units(c["dst"], od)
        must_raise("convert-to-other-dimension(Units)", q.convert, ou)
        must_raise("convert-to-other-dimension(UnitValue)", q.convert, S.UnitValue(1.0, ou))
        s = si.unit_str(c["dst"], od, 0)
        must_raise("convert-to-other-dimension(str '%s')" % s, q.convert, s)


# ------------------------------------------------------------------------------------------------
# unit systems reached through the public setters (attribute / item assignment, copy) after having been used

def reassigned_strategy(ctx):
    return st.fixed_dictionaries({
        "first": sys_st, "final": sys_st, "other": sys_st, "dim": dim_st,
        "values": st.lists(val_st, min_size=1, max_size=3),
        "array": st.booleans(),
        "role": st.sampled_from(["dst-system", "dst-units", "src"]),
        "setter": st.sampled_from(["attr", "item"]),
        "copy_first": st.booleans(),
        "warm": st.booleans(),
    })


def check_reassigned(ctx, c):
    dim = c["dim"]
    changed = [k for k in si.KINDS if dim[k] != 0 and c["first"][k] != c["final"][k]]
    ctx.note(c, bool(changed) and c["warm"], ["role:" + c["role"], "setter:" + c["setter"], "warm" if c["warm"] else "cold",
                                            "copied" if c["copy_first"] else "same-object", "nchanged:%d" % len(changed)])
    vals = c["values"] if c["array"] else c["values"][:1]
    sys_obj = mk_sys(c["first"])
    other = c["other"]

    def use(so, sysd):
        """one conversion in which the object `so` (describing sysd) takes the drawn role -> (result, exact factor)"""
        if c["role"] == "src":
            u = S.Units(so, mk_dim(dim))
            q = S.UnitArray(list(vals), u) if c["array"] else S.UnitValue(vals[0], u)
            return sut_call("convert", q.convert, mk_units(other, dim)), si.factor(sysd, other, dim), other
        q = _mk(dict(c, values=vals), other)
        tgt = so if c["role"] == "dst-system" else S.Units(so, mk_dim(dim))
        return sut_call("convert", q.convert, tgt), si.factor(other, sysd, dim), sysd

    if c["warm"]:
        r, f, _ = use(sys_obj, c["first"])
        for got, v in zip(_vals(r), vals):
            if not close(got, F(v) * f):
                raise Violation("conversion before any reassignment: %r, exact %r" % (got, float(F(v) * f)), key="reassigned:first")
    if c["copy_first"]:
        sys_obj = sut_call("UnitsSystem.copy", sys_obj.copy)
    for k in si.KINDS:
        if c["setter"] == "attr":
            sut_call("UnitsSystem.%s = ..." % k, setattr, sys_obj, k, c["final"][k])
        else:
            sut_call("UnitsSystem[...] = ...", sys_obj.__setitem__, k, c["final"][k])
    for k in si.KINDS:
        if sys_obj[k] != c["final"][k]:
            raise Violation("after assigning %s = %r the system reads %r" % (k, c["final"][k], sys_obj[k]), key="reassigned:getter")
    r, f, res_sys = use(sys_obj, c["final"])
    for k in si.KINDS:
        if dim[k] != 0 and r.units.sys[k] != res_sys[k]:
            raise Violation("result expressed in %s, asked %s (system reassigned from %s)" % (r.units.sys[k], res_sys[k], c["first"][k]),
                            key="reassigned:sys")
    for got, v in zip(_vals(r), vals):
        if not close(got, F(v) * f):
            raise Violation("a units system first %s then reassigned (%s) to %s, role %s: convert gave %r, exact %r" % (
                c["first"], c["setter"], c["final"], c["role"], got, float(F(v) * f)), key="reassigned:factor")


RULE = RULE + " " + ("Since seeded round 4 facet reassigned: a UnitsSystem object that has (or has not) already served in a conversion - as target system, inside a target Units, or inside the source's units - is optionally copied, then re-assigned component by component through the attribute or item setters, and used again; the result must be the exact factor for the system it now describes.")

RULE = RULE + " " + ('Since seeded round 5 target strings also come with the exponent of a base spread over several factors (m.m/s/s).')

FACETS = [
    Facet("table", check_table, enumerate=enum_table, shards=(8, 16)),
    Facet("generated", check_generated, strategy=gen_strategy, examples=(4000, 200000), shards=(8, 16)),
    Facet("reassigned", check_reassigned, strategy=reassigned_strategy, examples=(2000, 60000), shards=(4, 16)),
]
