"""C11 The native engine is memory-safe on every valid script."""
import os
import re
import subprocess
import sys
from fractions import Fraction as F

from hypothesis import strategies as st

from vlib import child, gen, si
from vlib.ratelaw import Model
from vlib.runner import Facet, Violation, HarnessError, VERIF
from vlib import sut  # noqa: F401

PROPERTY = "C11"
RULE = ("sanitized: Hypothesis scripts (all engines, grids of every shape incl. size 1 and periodic axes of "
        "length 1 and 2, graphs with isolated nodes, self-loops and parallel edges, all sampling policies "
        "with requested-time lists that are exhausted before the run ends, all processing modes, empty "
        "cells, zero and large propensities, chemostats) x lifecycle-respecting call histories (set-up, "
        "iterate, iterate_n, run-to-completion, explicit samples, repeated get_output, repeated finalize, "
        "re-set-up with another script), executed through the normal Python API in a child process that "
        "loads the engine compiled from the working tree with AddressSanitizer + UBSan + "
        "_GLIBCXX_ASSERTIONS; any sanitizer report, library assertion or fatal signal is a violation, and "
        "the same job on the plain build must return the same values (bit-identical for stochastic "
        "engines, 1e-12 for Euler). Thorough tier adds a libFuzzer campaign on the C entry points "
        "(fuzz/engine_fuzz.cpp). Non-trivial: >= 1 iteration executed and (the requested-sample list is "
        "exhausted during the run, or a multigraph / periodic axis of length 1 or 2 / Poisson mode / "
        "empty cell is present).")
ASSUMPTIONS = ["sanitizers see executed paths only; reads of uninitialised values are not detected (no MSan)",
               "call histories respect the documented lifecycle and operate one engine object at a time (D14)"]
DEF_US = {"space": "µm", "time": "s", "quantity": "molecule"}
_state = {}


def setup(ctx):
    from vlib import build
    build.engine_path("plain")
    build.engine_path("san")


def get_child(lib):
    if lib not in _state:
        _state[lib] = child.Child(lib)
    return _state[lib]


@st.composite
def script_st(draw):
    spec = draw(gen.system_spec(variety="default", max_species=3, max_reactions=3, max_order=3, max_cells=12, max_axis=4,
                                chemostats="mixed", state="explicit", count_exp=(0, 2), rate_exp=(-1, 1), simple_graph=False))
    # sprinkle empty cells / sub-molecule entries
    vals = list(spec["state"]["values"])
    for i in range(len(vals)):
        r = draw(st.integers(0, 9))
        if r == 0:
            vals[i] = "0/1"
        elif r == 1:
            vals[i] = gen.fs(F(draw(st.integers(1, 60)), 128))
    spec = dict(spec, state={"values": vals, "units": "molecule"})
    m = Model(spec)
    from vlib.ratelaw import tame_dt
    dt = tame_dt(m, m.flags(), frac=0.05)
    nst = draw(st.integers(1, 30))
    ts = sorted(draw(st.lists(st.integers(0, nst + 2), min_size=1, max_size=6)))
    tmax = draw(st.sampled_from([None, None, dt * (nst + 0.5), dt * 0.5, 0.0]))
    units = dict(DEF_US)
    if draw(st.integers(0, 2)) == 0:
        units = {"space": draw(st.sampled_from(si.SPACE_SYMS)), "time": "s", "quantity": draw(st.sampled_from(si.QUANTITY_SYMS))}
    mode = draw(st.sampled_from(["auto", "auto", "none", "redist", "Poisson"]))
    if mode == "none":
        # 'none' hands the state to the engine as it is: stochastic engines need whole molecules then
        spec = dict(spec, state={"values": [gen.fs(round(F(v))) for v in spec["state"]["values"]], "units": "molecule"})
    return {"sys": spec, "route": draw(st.sampled_from(["ctor", "dict"])), "units": units,
            "t_sample": [v * dt for v in ts], "time_step": dt, "t_max": tmax,
            "policy": draw(st.sampled_from(["on_t_sample", "on_t_sample", "on_iteration", "on_interval", "no_sampling"])),
            "interval": dt * draw(st.sampled_from([0.5, 1.0, 2.5])), "seed": draw(st.integers(0, 2 ** 32 - 1)),
            "mode": mode}


@st.composite
def case(draw):
    scripts = [draw(script_st()) for _ in range(draw(st.integers(1, 2)))]
    kind = draw(st.sampled_from(["euler", "gillespie", "tauleap"]))
    calls = [["new", "E", kind], ["setup", "E", 0]]
    n = draw(st.integers(1, 12))
    live = True
    for _ in range(n):
        if not live:
            op = draw(st.sampled_from(["finalize", "setup"]))
        else:
            op = draw(st.sampled_from(["iterate", "iterate", "iterate_n", "iterate_n", "run_loop", "sample", "progress", "complete",
                                       "output", "output", "finalize", "setup", "output-sample-output"]))
        if op == "output-sample-output":
            # results are read, a record is added by hand, results are read again (no iteration in between): the
            # second read needs larger buffers than the first
            calls.extend([["output", "E"], ["sample", "E"], ["output", "E"]])
        elif op == "iterate_n":
            calls.append(["iterate_n", "E", draw(st.integers(0, 40))])
        elif op == "setup":
            calls.append(["setup", "E", draw(st.integers(0, len(scripts) - 1))])
            live = True
        elif op == "finalize":
            calls.append(["finalize", "E"])
            live = False
        else:
            calls.append([op, "E"])
    if live:
        calls.append(["output", "E"])
    calls.append(["finalize", "E"])
    return {"scripts": scripts, "calls": calls, "kind": kind}


def features(c):
    cl = ["engine:" + c["kind"]]
    special = False
    for s in c["scripts"]:
        sp = s["sys"]["space"]
        cl.append("policy:" + s["policy"])
        cl.append("mode:" + s["mode"])
        if s["mode"] == "Poisson":
            special = True
        if any(F(v) == 0 for v in s["sys"]["state"]["values"]):
            cl.append("empty-cell")
            special = True
        if sp["type"] == "grid":
            dims = {"x": sp["w"], "y": sp["h"], "z": sp["d"]}
            for ax, v in sp["bc"].items():
                if v == "periodical" and dims[ax] <= 2:
                    cl.append("periodic-len%d" % dims[ax])
                    special = True
            if sp["w"] * sp["h"] * sp["d"] == 1:
                cl.append("single-cell-grid")
        else:
            seen = set()
            deg = [0] * len(sp["nodes"])
            for e in sp["edges"]:
                k = (min(e["i"], e["j"]), max(e["i"], e["j"]))
                if e["i"] == e["j"]:
                    cl.append("self-loop")
                    special = True
                elif k in seen:
                    cl.append("parallel-edges")
                    special = True
                seen.add(k)
                deg[e["i"]] += 1
                deg[e["j"]] += 1
            if any(d == 0 for d in deg):
                cl.append("isolated-node")
                special = True
    return sorted(set(cl)), special


def classify_report(text):
    m = re.search(r"ERROR: AddressSanitizer: ([a-zA-Z0-9_-]+)", text)
    if m:
        return "asan:" + m.group(1)
    m = re.search(r"runtime error: ([^\n]{0,80})", text)
    if m:
        return "ubsan:" + re.sub(r"[0-9]+", "N", m.group(1))[:50]
    if "Assertion" in text:
        m = re.search(r"Assertion '([^']{0,80})'", text)
        return "libstdc++-assertion:" + (m.group(1) if m else "?")
    return "fatal-signal"


def strat(ctx):
    return case()


def check(ctx, c):
    cl, special = features(c)
    names = [x[0] for x in c["calls"]]
    iterated = any(n in ("iterate", "iterate_n", "run_loop") for n in names)
    # is a requested-sample list exhausted during the run? (on_t_sample with all times <= t_max reached)
    tail = any(s["policy"] == "on_t_sample" for s in c["scripts"]) and ("run_loop" in names or any(x[0] == "iterate_n" and x[2] >= 10 for x in c["calls"]))
    ctx.note(c, iterated and (tail or special), cl + (["sample-list-exhausted(likely)"] if tail else []))
    job = {"scripts": c["scripts"], "calls": c["calls"]}
    text = " ; ".join("%s%s" % (x[0], "(%s)" % ",".join(map(str, x[2:])) if len(x) > 2 else "()") for x in c["calls"])
    st_, rep = get_child("san").run(job, timeout=120.0)
    if st_ == "timeout":
        get_child("san").kill()
        ctx.skip("time-out under the sanitized build (hangs are C10's business)")
        return
    if st_ == "died":
        kind = classify_report(rep.get("stderr", ""))
        tail_txt = rep.get("stderr", "")
        m = re.search(r"(ERROR: AddressSanitizer[^\n]*|[^\n]*runtime error:[^\n]*|[^\n]*Assertion[^\n]*)", tail_txt)
        line = m.group(1).strip()[:300] if m else "signal %s" % rep.get("signal")
        where = re.search(r"#\d+ 0x[0-9a-f]+ in ([A-Za-z0-9_:~<>]+)[^\n]*?([A-Za-z0-9_]+\.(?:hpp|cpp)):(\d+)", tail_txt)
        loc = " in %s (%s:%s)" % (where.group(1), where.group(2), where.group(3)) if where else ""
        raise Violation("%s engine, history [%s]: %s%s" % (c["kind"], text, line, loc), key=kind)
    if rep.get("error"):
        raise HarnessError(rep["error"])
    san = rep["results"]
    for x, r in zip(c["calls"], san):
        if "exc" in r:
            raise Violation("history [%s]: %s raised %s" % (text, x[0], r["exc"]), key="exception")
    st2, rep2 = get_child("plain").run(job, timeout=120.0)
    if st2 != "ok":
        if st2 == "died":
            raise Violation("plain build, history [%s]: process died with signal %s" % (text, rep2.get("signal")), key="plain-crash")
        ctx.skip("plain build timed out")
        return
    if rep2.get("error"):
        raise HarnessError(rep2["error"])
    for k, (x, a, b) in enumerate(zip(c["calls"], san, rep2["results"])):
        ra, rb = a.get("r"), b.get("r")
        if isinstance(ra, dict) and isinstance(rb, dict):
            if len(ra["t"]) != len(rb["t"]) or len(ra["data"]) != len(rb["data"]):
                raise Violation("history [%s]: call %d (%s): sanitized build returned %d samples, plain build %d" % (
                    text, k, x[0], len(ra["t"]), len(rb["t"])), key="differential:shape")
            tol = 0.0 if c["kind"] != "euler" else 1e-12
            for u, v in zip(ra["t"] + ra["data"], rb["t"] + rb["data"]):
                if u != v and not (abs(u - v) <= tol * max(abs(u), abs(v))) and not (u != u and v != v):
                    raise Violation("history [%s]: call %d (%s): sanitized and plain builds return different values (%r vs %r): the result "
                                    "depends on memory outside the engine's arrays or on undefined behaviour" % (text, k, x[0], u, v), key="differential:value")
        elif x[0] == "progress":
            if ra != rb and abs(ra - rb) > 1e-12 * max(abs(ra), abs(rb)):
                raise Violation("history [%s]: get_progress differs between builds: %r vs %r" % (text, ra, rb), key="differential:progress")
        elif ra != rb:
            raise Violation("history [%s]: call %d (%s) returned %r (sanitized) vs %r (plain)" % (text, k, x[0], ra, rb), key="differential:return")
    ctx.count("calls", len(c["calls"]))


# ---- thorough: libFuzzer on the C entry points --------------------------------------------------------------

def enum_fuzz(ctx):
    if ctx.tier != "thorough":
        return
    for corpus in ("seeded", "empty"):
        yield {"corpus": corpus, "runs": 400000, "seed": ctx.seed}


def build_fuzzer():
    from vlib import build
    try:
        return build.fuzzer_path()
    except build.BuildError as e:
        raise HarnessError(str(e))


def check_fuzz(ctx, c):
    import shutil
    import tempfile
    exe = build_fuzzer()
    work = tempfile.mkdtemp(prefix="fuzz-", dir=os.path.join(VERIF, ".work"))
    try:
        corpus = os.path.join(work, "corpus")
        os.makedirs(corpus)
        if c["corpus"] == "seeded":
            sd = os.path.join(VERIF, "fuzz", "seeds")
            for name in os.listdir(sd):
                shutil.copy(os.path.join(sd, name), corpus)
        art = os.path.join(work, "artifact-")
        r = subprocess.run([exe, corpus, "-runs=%d" % c["runs"], "-seed=%d" % (c["seed"] or 1), "-max_len=512", "-timeout=20",
                            "-artifact_prefix=" + art, "-print_final_stats=1"], capture_output=True, text=True, timeout=7200,
                           env=dict(os.environ, ASAN_OPTIONS="detect_leaks=0:abort_on_error=0", UBSAN_OPTIONS="halt_on_error=1:print_stacktrace=1"))
        m = re.search(r"stat::number_of_executed_units:\s*(\d+)", r.stderr)
        execs = int(m.group(1)) if m else 0
        ctx.note(c, True, ["libfuzzer:" + c["corpus"]])
        ctx.count("libfuzzer_executions", execs)
        arts = [f for f in os.listdir(work) if f.startswith("artifact-")]
        if r.returncode != 0 or arts:
            keep = os.path.join(VERIF, "found", "C11")
            os.makedirs(keep, exist_ok=True)
            saved = None
            for a in arts:
                saved = os.path.join(keep, "libfuzzer-" + a)
                shutil.copy(os.path.join(work, a), saved)
            kind = classify_report(r.stderr)
            line = re.search(r"(ERROR: AddressSanitizer[^\n]*|[^\n]*runtime error:[^\n]*|[^\n]*Assertion[^\n]*|ERROR: libFuzzer[^\n]*)", r.stderr)
            raise Violation("libFuzzer (%s corpus, %d executions): %s ; input saved as %s (re-run: %s %s)" % (
                c["corpus"], execs, line.group(1)[:300] if line else "exit %d" % r.returncode, saved, exe, saved), key="libfuzzer:" + kind)
    finally:
        shutil.rmtree(work, ignore_errors=True)


RULE = RULE + " " + ('Since seeded round 4 the sanitized child runs with PYTHONMALLOC=malloc, so the ctypes buffers that the engine fills (trajectory, sample times) are ASan-tracked heap blocks; histories contain the pattern output ; sample ; output (results read, a record added by hand, results read again without an iteration in between).')

FACETS = [
    Facet("sanitized", check, strategy=strat, examples=(480, 20000), shards=(16, 16), setup=setup, native=True, shrink=True),
    Facet("libfuzzer", check_fuzz, enumerate=enum_fuzz, shards=(2, 2), setup=setup, native=True),
]
