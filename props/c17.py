"""C17 Trajectory accessors all read the same array consistently."""
from fractions import Fraction as F

from hypothesis import strategies as st

from vlib import gen, si, sim
from vlib.runner import Facet, Violation, sut_call
from vlib import sut  # noqa: F401
import strengths as S

PROPERTY = "C17"
RULE = ("accessors: Hypothesis trajectories constructed directly from known arrays (nsamples, nspecies, "
        "ncells in 1..5, entries 1000 n + 100 s + i + 1 so that every stride error is visible, strictly "
        "increasing dyadic times, any amount and time unit, grid or graph system): all (species, sample, "
        "cell) triples through get_trajectory_point / get_state(s,n) / get_state(None,n) / "
        "get_trajectory(s,i) / get_trajectory(s,merge=True), species by label/index/object, cells by "
        "index/float/tuple/list/object, returned units = data units; lookup: get_sample_index for the "
        "three policies vs a reference evaluated in Fractions, query times before/on/between/after the "
        "samples incl. exact mid-point ties (own unit) and other time units (kept >= 1e-9 away from "
        "samples and mid-points), given as UnitValue / string / number; simulated: the same accessor "
        "identities on trajectories produced by the engines. Non-trivial: nspecies >= 2 and ncells >= 2 "
        "and nsamples >= 2.")
ASSUMPTIONS = ["sample times strictly increasing (records made by a sampling policy)",
               "a bare number passed to get_sample_index is taken in the trajectory's time unit"]

LABELS = ["A", "B", "C", "D2", "E"]


class Coord:
    def __init__(self, x=0, y=0, z=0):
        self.x, self.y, self.z = x, y, z


def make_system(c):
    ns, nc = c["ns"], c["nc"]
    net = S.RDNetwork([S.Species(LABELS[k]) for k in range(ns)], [])
    if c["space"] == "grid":
        w, h, d = c["shape"]
        space = S.RDGridSpace(w=w, h=h, d=d)
    else:
        space = S.RDGraphSpace(nodes=[S.RDGraphSpaceNode() for _ in range(nc)],
                               edges=[S.RDGraphSpaceEdge(i, i + 1) for i in range(nc - 1)])
    return S.RDSystem(net, space)


@st.composite
def traj_case(draw):
    ns = draw(st.integers(1, 5))
    nsamp = draw(st.integers(1, 5))
    space = draw(st.sampled_from(["grid", "graph"]))
    if space == "grid":
        shape = draw(st.sampled_from([(1, 1, 1), (2, 1, 1), (1, 2, 1), (1, 1, 2), (3, 1, 1), (2, 2, 1), (1, 2, 2),
                                      (2, 1, 2), (5, 1, 1), (1, 1, 5), (2, 2, 1), (2, 1, 1), (1, 5, 1), (4, 1, 1), (1, 2, 2)]))
        nc = shape[0] * shape[1] * shape[2]
    else:
        nc = draw(st.integers(1, 5))
        shape = None
    t0 = draw(st.integers(0, 16))
    steps = [draw(st.integers(1, 16)) for _ in range(nsamp - 1)]
    times = [t0]
    for s_ in steps:
        times.append(times[-1] + s_)
    return {"ns": ns, "nc": nc, "nsamp": nsamp, "space": space, "shape": shape,
            "times8": times,  # in eighths of the time unit
            "qunit": draw(st.sampled_from(si.QUANTITY_SYMS)), "tunit": draw(st.sampled_from(si.TIME_SYMS)),
            "by": draw(st.sampled_from(["label", "index", "object"])),
            "form": draw(st.sampled_from(["index", "float", "tuple", "list", "object"]))}


def build_traj(c):
    system = make_system(c)
    ns, nc, nsamp = c["ns"], c["nc"], c["nsamp"]
    data = [1000.0 * n + 100.0 * s + i + 1 for n in range(nsamp) for s in range(ns) for i in range(nc)]
    times = [v / 8.0 for v in c["times8"]]
    traj = S.RDTrajectory(data=S.UnitArray(data, c["qunit"]), t_sample=S.UnitArray(times, c["tunit"]), system=system)
    return system, traj, data, times


def position(c, i):
    if c["space"] == "grid":
        w, h, d = c["shape"]
        xyz = (i % w, (i // w) % h, i // (w * h))
        return {"index": i, "float": float(i), "tuple": xyz, "list": list(xyz), "object": Coord(*xyz)}[c["form"]]
    return {"index": i, "float": float(i)}.get(c["form"], i)


def same_units(q, c, what):
    if si.dimdict(q.units.dim) != gen.DIM_QTY or q.units.sys["quantity"] != c["qunit"]:
        raise Violation("%s returned units '%s', data are in %s" % (what, q.units, c["qunit"]), key="accessors:units")


def strat_accessors(ctx):
    return traj_case()


def check_accessor_identities(c, system, traj, data):
    ns, nc, nsamp = c["ns"], c["nc"], c["nsamp"]
    if traj.nsamples() != nsamp or traj.nspecies() != ns or traj.ncells() != nc:
        raise Violation("nsamples/nspecies/ncells = %d/%d/%d, expected %d/%d/%d" % (
            traj.nsamples(), traj.nspecies(), traj.ncells(), nsamp, ns, nc), key="accessors:shape")
    for s in range(ns):
        sref = {"label": LABELS[s] if "labels" not in c else c["labels"][s], "index": s,
                "object": system.network.species[s]}[c["by"]]
        merged = sut_call("get_trajectory(merge=True)", traj.get_trajectory, sref, merge=True)
        same_units(merged, c, "get_trajectory(merge=True)")
        for n in range(nsamp):
            terms = [data[n * ns * nc + s * nc + i] for i in range(nc)]
            want_sum = sum(terms)
            if abs(float(merged.value[n]) - want_sum) > 1e-9 * sum(abs(v) for v in terms):
                raise Violation("get_trajectory(species %d, merge=True)[%d] = %r, sum over cells %r" % (
                    s, n, float(merged.value[n]), want_sum), key="accessors:merge")
            st_ = sut_call("get_state(s, n)", traj.get_state, sref, n)
            same_units(st_, c, "get_state")
            if len(st_) != nc:
                raise Violation("get_state(species, sample) has %d entries, %d cells" % (len(st_), nc), key="accessors:get_state-len")
            for i in range(nc):
                want = data[n * ns * nc + s * nc + i]
                pos = position(c, i)
                p = sut_call("get_trajectory_point", traj.get_trajectory_point, sref, n, pos)
                if p.value != want:
                    raise Violation("get_trajectory_point(species %d, sample %d, cell %d as %s) = %r, data[%d] = %r" % (
                        s, n, i, c["form"], p.value, n * ns * nc + s * nc + i, want), key="accessors:point")
                same_units(p, c, "get_trajectory_point")
                if float(st_.value[i]) != want:
                    raise Violation("get_state(species %d, sample %d)[%d] = %r, data = %r" % (s, n, i, float(st_.value[i]), want),
                                    key="accessors:get_state")
        for i in range(nc):
            tr = sut_call("get_trajectory(s, i)", traj.get_trajectory, sref, position(c, i))
            same_units(tr, c, "get_trajectory")
            if len(tr) != nsamp:
                raise Violation("get_trajectory has %d entries, %d samples" % (len(tr), nsamp), key="accessors:get_trajectory-len")
            for n in range(nsamp):
                if float(tr.value[n]) != data[n * ns * nc + s * nc + i]:
                    raise Violation("get_trajectory(species %d, cell %d)[%d] = %r, data = %r" % (
                        s, i, n, float(tr.value[n]), data[n * ns * nc + s * nc + i]), key="accessors:get_trajectory")
    for n in range(nsamp):
        whole = sut_call("get_state(None, n)", traj.get_state, None, n)
        same_units(whole, c, "get_state(None)")
        if [float(v) for v in whole.value] != data[n * ns * nc:(n + 1) * ns * nc]:
            raise Violation("get_state(None, %d) is not the sample's contiguous block" % n, key="accessors:whole-state")


def check_accessors(ctx, c):
    ns, nc, nsamp = c["ns"], c["nc"], c["nsamp"]
    ctx.note(c, ns >= 2 and nc >= 2 and nsamp >= 2,
             ["space:" + c["space"], "by:" + c["by"], "pos:" + c["form"]] +
             (["single-sample"] if nsamp == 1 else []) + (["single-cell"] if nc == 1 else []) +
             (["single-species"] if ns == 1 else []))
    system, traj, data, times = sut_call("build trajectory", build_traj, c)
    check_accessor_identities(c, system, traj, data)


# ---- sample index look-up ----------------------------------------------------------------------

def ref_lookup(times, t, policy):
    """times: Fractions strictly increasing; t Fraction"""
    if not times:
        return None
    if policy == "infeq":
        idx = [k for k, v in enumerate(times) if v <= t]
        return idx[-1] if idx else None
    if policy == "supeq":
        idx = [k for k, v in enumerate(times) if v >= t]
        return idx[0] if idx else None
    best = None
    for k, v in enumerate(times):
        dist = abs(v - t)
        if best is None or dist < best[0]:
            best = (dist, k)
    return best[1]


@st.composite
def lookup_case(draw):
    c = draw(traj_case())
    kind = draw(st.sampled_from(["before", "after", "on", "between", "tie", "other-unit", "other-unit", "hairline"]))
    c["qkind"] = kind
    c["qpick"] = draw(st.integers(0, 1000))
    c["qfrac"] = draw(st.integers(1, 15))
    c["qunit_t"] = draw(st.sampled_from(si.TIME_SYMS))
    c["qform"] = draw(st.sampled_from(["uv", "str", "number"]))
    c["policy"] = draw(st.sampled_from(["closest", "infeq", "supeq"]))
    # a second query on the same trajectory object: the same number in another time unit (or None: no second query)
    c["again_unit"] = draw(st.one_of(st.none(), st.sampled_from(si.TIME_SYMS)))
    c["again_form"] = draw(st.sampled_from(["uv", "str"]))
    return c


def strat_lookup(ctx):
    return lookup_case()


def check_lookup(ctx, c):
    system, traj, data, times = sut_call("build trajectory", build_traj, c)
    tf = [F(v, 8) for v in c["times8"]]          # in the trajectory's unit
    n = len(tf)
    kind = c["qkind"]
    pick = c["qpick"]
    own = True
    if kind == "before":
        q = tf[0] - F(c["qfrac"], 16)
    elif kind == "after":
        q = tf[-1] + F(c["qfrac"], 16)
    elif kind == "on":
        q = tf[pick % n]
    elif kind == "between" and n >= 2:
        k = pick % (n - 1)
        fr = F(c["qfrac"], 16)
        if fr == F(1, 2):
            fr = F(7, 16)
        q = tf[k] + (tf[k + 1] - tf[k]) * fr
    elif kind == "hairline":
        # a hair's breadth before / after a sample (relative 2^-24 .. 2^-40): not "equal", whatever tolerance a float comparison may like
        k = pick % n
        eps = F(1, 2 ** (24 + 4 * (c["qfrac"] % 5)))
        q = tf[k] + (abs(tf[k]) + (1 if tf[k] == 0 else 0)) * eps * (1 if c["qfrac"] % 2 else -1)
    elif kind == "tie" and n >= 2:
        k = pick % (n - 1)
        q = (tf[k] + tf[k + 1]) / 2
    else:
        # another unit: a value kept >= 1e-9 (relative to the span) away from samples and mid-points
        own = False
        span = (tf[-1] - tf[0]) if n >= 2 else F(1)
        lo = tf[0] - span / 4 - F(1, 4)
        q = lo + (span * F(3, 2) + F(1, 2)) * F(pick % 997, 997)
    scale_own = si.TIME[c["tunit"]]
    if own:
        val_unit = c["tunit"]
        val = float(q)                      # dyadic: exact
        q_exact = F(val)
    else:
        val_unit = c["qunit_t"]
        val = float(q * scale_own / si.TIME[val_unit])
        q_exact = F(val) * si.TIME[val_unit] / scale_own      # what the float really means, in own units
        marks = list(tf) + [(tf[k] + tf[k + 1]) / 2 for k in range(n - 1)]
        tol = F(1, 10 ** 9) * (abs(tf[-1]) + abs(tf[0]) + 1)
        if any(abs(q_exact - m) <= tol for m in marks):
            ctx.skip("query too close to a sample or mid-point for a converted unit")
            return
    form = c["qform"]
    if form == "number" and not own:
        form = "uv"
    arg = {"uv": S.UnitValue(val, val_unit), "str": "%r %s" % (val, val_unit), "number": val}[form]
    want = ref_lookup(tf, q_exact, c["policy"])
    ctx.note(c, c["ns"] >= 2 and c["nc"] >= 2 and n >= 2,
             ["lookup:" + c["policy"], "query:" + kind if (kind not in ("between", "tie") or n >= 2) else "query:other-unit",
              "qform:" + form] + (["single-sample"] if n == 1 else []))
    got = sut_call("get_sample_index", traj.get_sample_index, arg, c["policy"])
    if got != want:
        raise Violation("get_sample_index(%r, %r) = %r, reference %r (sample times %s %s)" % (
            arg if form != "uv" else str(arg), c["policy"], got, want, [float(v) for v in tf], c["tunit"]), key="lookup:" + c["policy"])
    # the same trajectory object asked again: same number, another unit; then the first question once more
    u2 = c.get("again_unit")
    if u2 is not None and u2 != val_unit:
        q2 = F(val) * si.TIME[u2] / scale_own
        marks = list(tf) + [(tf[k] + tf[k + 1]) / 2 for k in range(n - 1)]
        tol = F(1, 10 ** 9) * (abs(tf[-1]) + abs(tf[0]) + 1)
        if not any(abs(q2 - m) <= tol for m in marks):
            ctx.count("second-query-other-unit")
            arg2 = S.UnitValue(val, u2) if c["again_form"] == "uv" else "%r %s" % (val, u2)
            want2 = ref_lookup(tf, q2, c["policy"])
            got2 = sut_call("get_sample_index", traj.get_sample_index, arg2, c["policy"])
            if got2 != want2:
                raise Violation("get_sample_index(%s, %r) = %r, reference %r, when asked after get_sample_index(%s, %r) on the same "
                                "trajectory (sample times %s %s)" % (arg2, c["policy"], got2, want2, arg, c["policy"],
                                                                     [float(v) for v in tf], c["tunit"]), key="lookup:second-query")
        again = sut_call("get_sample_index", traj.get_sample_index, arg, c["policy"])
        if again != want:
            raise Violation("get_sample_index(%s, %r) = %r the second time, %r the first time" % (arg, c["policy"], again, want),
                            key="lookup:repeat")


# ---- simulated trajectories -----------------------------------------------------------------------

def strat_sim(ctx):
    return st.fixed_dictionaries({
        "sys": gen.system_spec(variety="mild", max_species=3, max_reactions=2, max_order=2, max_cells=8, max_axis=3,
                               count_exp=(0, 2), min_species=2),
        "engine": st.sampled_from(["euler", "tauleap", "gillespie"]),
        "steps": st.integers(1, 6), "seed": st.integers(0, 2 ** 32 - 1),
        "by": st.sampled_from(["label", "index", "object"]),
        "form": st.sampled_from(["index", "float", "tuple", "list", "object"]),
        "out": gen.us_mild,
    })


def check_sim(ctx, c):
    from vlib import build_model as B
    from vlib.ratelaw import Model
    spec = c["sys"]
    model = Model(spec)
    system = sut_call("build_system", B.build_system, spec, "ctor")
    # explicit seconds: a bare number would be read in the script's time unit (hours ...) and make the run unstable
    script = sut_call("RDScript", S.RDScript, system, [0], time_step="1e-4 s", t_max="1 s", sampling_policy="on_iteration",
                      rng_seed=c["seed"], units_system=B.US(c["out"]))
    traj, _, _ = sut_call("engine run", sim.drive, script, c["engine"], c["steps"])
    sp = spec["space"]
    cc = {"ns": model.ns, "nc": model.n, "nsamp": len(traj.t), "space": sp["type"],
          "shape": (sp["w"], sp["h"], sp["d"]) if sp["type"] == "grid" else None,
          "qunit": c["out"]["quantity"], "by": c["by"], "form": c["form"], "labels": model.labels}
    ctx.note(c, model.ns >= 2 and model.n >= 2 and cc["nsamp"] >= 2, ["simulated:" + c["engine"], "space:" + sp["type"]])
    data = [float(v) for v in traj.data.value]
    if len(data) != cc["nsamp"] * model.ns * model.n:
        raise Violation("data has %d values for %d samples x %d species x %d cells" % (len(data), cc["nsamp"], model.ns, model.n),
                        key="simulated:shape")
    check_accessor_identities(cc, traj.system, traj, data)


RULE = RULE + " " + ('Since seeded round 4 the lookup facet asks the same trajectory object a second question (the same number in another time unit, as UnitValue or string) and then the first question again.')

RULE = RULE + " " + ("Since seeded round 5 the lookup facet also asks at a hair's breadth (relative 2^-24 .. 2^-40) before / after a sample time.")

FACETS = [
    Facet("accessors", check_accessors, strategy=strat_accessors, examples=(1500, 40000), shards=(8, 16)),
    Facet("lookup", check_lookup, strategy=strat_lookup, examples=(6000, 200000), shards=(8, 16)),
    Facet("simulated", check_sim, strategy=strat_sim, examples=(300, 6000), shards=(4, 16), setup=sim.setup_plain),
]
