"""C13 Default state and chemostat map: density x volume, species-major layout."""
from fractions import Fraction as F

from hypothesis import strategies as st

from vlib import gen, si
from vlib import build_model as B
from vlib.ratelaw import Model, env_lookup, flag_lookup
from vlib.runner import Facet, Violation, sut_call
from vlib import sut  # noqa: F401
import strengths as S

PROPERTY = "C13"
RULE = ("Hypothesis system specs without explicit state (scalar / per-environment densities and flags "
        "with 'default' fallbacks and comma-joined keys, grids and graphs with per-node volumes and units, "
        "a unit system per nesting level, 'any' of the 1100 systems). Facets: defaults (state[s*n+i] == "
        "density_s(env_i) x V_i in SI rtol 1e-12, amount dimension; chemostats == "
        "flag_s(env_i)), accessors (every (species, cell) read through label/index/object x "
        "index/float/tuple/list/object position equals entry s*n + z*w*h + y*w + x; set_state / "
        "set_chemostat compared with a model array after every write), regenerate (editing a species' "
        "density / flag changes nothing until set_default_state / set_default_chemostats, then equals the "
        "reference of the edited spec). Non-trivial: >= 2 species, >= 2 cells that differ in environment or "
        "volume, density and volume given in different unit systems, more than half of the reference entries pairwise distinct and the first two species rows different (so a transposition is visible).")
ASSUMPTIONS = ["reference values computed from the spec (vlib/ratelaw.Model.default_state/default_flags)",
               "bare numbers passed to set_state are in the system's unit system (RDSystem.state setter semantics)"]
RTOL = F(1, 10 ** 12)


class Coord:
    def __init__(self, x=0, y=0, z=0):
        self.x, self.y, self.z = x, y, z


def positions(spec, cell, form):
    sp = spec["space"]
    if sp["type"] == "grid":
        w, h = sp["w"], sp["h"]
        xyz = (cell % w, (cell // w) % h, cell // (w * h))
        return {"index": cell, "float": float(cell), "tuple": xyz, "list": list(xyz), "object": Coord(*xyz)}[form]
    return {"index": cell, "float": float(cell)}.get(form, cell)


def species_ref(system, spec, s, by):
    return {"index": s, "label": spec["species"][s]["label"], "object": system.network.species[s]}[by]


def classes_of(spec, model):
    cl = ["space:" + spec["space"]["type"]]
    if len(set(model.cell_env)) > 1:
        cl.append("heterogeneous-env")
    if len(set(model.vol)) > 1:
        cl.append("heterogeneous-volumes")
    for s in spec["species"]:
        if not B.is_qv(s["density"]):
            cl.append("density-per-env")
            if "default" in s["density"]:
                cl.append("default-fallback")
        if isinstance(s["chstt"], dict):
            cl.append("chstt-per-env")
    return sorted(set(cl))


def nontrivial(spec, model):
    if model.ns < 2 or model.n < 2:
        return False
    if len(set(model.cell_env)) < 2 and len(set(model.vol)) < 2:
        return False
    ds = model.default_state
    if 2 * len(set(ds)) < len(ds) + 1 or ds[:model.n] == ds[model.n:2 * model.n]:
        return False
    su = spec["space"]["units"]["sys"]
    return any(s["units"]["sys"] != su for s in spec["species"])


def check_state_array(system, model, spec, want_si, what):
    st_ = system.state
    if si.dimdict(st_.units.dim) != gen.DIM_QTY:
        raise Violation("%s: state dimension %s" % (what, st_.units.dim), key="defaults:dim")
    got = si.si_values(st_)
    if len(got) != len(want_si):
        raise Violation("%s: state has %d entries, expected %d" % (what, len(got), len(want_si)), key="defaults:len")
    for t, (g, w) in enumerate(zip(got, want_si)):
        if abs(g - F(w)) > RTOL * abs(F(w)):
            raise Violation("%s: state[%d] (species %d, cell %d) = %r molecules, density x volume = %r" % (
                what, t, t // model.n, t % model.n, float(g), w), key="defaults:value")


def strat_defaults(ctx):
    return st.fixed_dictionaries({
        "sys": gen.system_spec(variety="any", max_species=4, max_reactions=1, max_order=2, max_cells=12,
                               chemostats="species", state="default", simple_graph=False),
        "route": st.sampled_from(["ctor", "dict"]),
    })


def check_defaults(ctx, c):
    spec = c["sys"]
    model = Model(spec)
    ctx.note(c, nontrivial(spec, model), classes_of(spec, model) + ["route:" + c["route"]])
    system = sut_call("build_system", B.build_system, spec, c["route"])
    check_state_array(system, model, spec, model.default_state, "default state")
    flags = [int(v) for v in system.chemostats]
    if flags != model.flags():
        raise Violation("chemostat map %s, expected %s" % (flags, model.flags()), key="defaults:flags")
    if system.state_size() != model.n * model.ns:
        raise Violation("state_size() = %d" % system.state_size(), key="defaults:size")


def strat_accessors(ctx):
    return st.fixed_dictionaries({
        "sys": gen.system_spec(variety="any", max_species=3, max_reactions=0, max_cells=12,
                               chemostats="species", state="default", min_species=2),
        "route": st.sampled_from(["ctor", "dict"]),
        "by": st.sampled_from(["index", "label", "object"]),
        "form": st.sampled_from(["index", "float", "tuple", "list", "object"]),
        "writes": st.lists(st.fixed_dictionaries({
            "s": st.integers(0, 10), "cell": st.integers(0, 100),
            "kind": st.sampled_from(["state-number", "state-uv", "state-str", "flag"]),
            "value": st.integers(1, 10 ** 6), "unit": st.sampled_from(si.QUANTITY_SYMS),
            "flag": st.sampled_from([0, 1, True, False]),
            "by": st.sampled_from(["index", "label", "object"]),
            "form": st.sampled_from(["index", "float", "tuple", "list", "object"])}), max_size=5),
    })


def check_accessors(ctx, c):
    spec = c["sys"]
    model = Model(spec)
    n, ns = model.n, model.ns
    ctx.note(c, nontrivial(spec, model) or (ns >= 2 and n >= 2 and bool(c["writes"])),
             ["by:" + c["by"], "pos:" + c["form"], "writes:%d" % len(c["writes"]), "space:" + spec["space"]["type"]])
    system = sut_call("build_system", B.build_system, spec, c["route"])
    qsym = system.state.units.sys["quantity"]
    qs = si.QUANTITY[qsym]
    m_state = [F(float(v)) * qs for v in system.state.value]   # model array in molecules (exact)
    m_flags = [int(v) for v in system.chemostats]

    def read_all(by, form, what):
        for s in range(ns):
            for i in range(n):
                sr = species_ref(system, spec, s, by)
                pos = positions(spec, i, form)
                g = sut_call("get_state", system.get_state, sr, pos)
                if si.dimdict(g.units.dim) != gen.DIM_QTY:
                    raise Violation("get_state dimension %s" % g.units.dim, key="accessors:dim")
                w = m_state[s * n + i]
                if abs(si.si_value(g) - w) > RTOL * abs(w):
                    raise Violation("%s: get_state(species %d by %s, cell %d as %s) = %r molecules, entry %d holds %r" % (
                        what, s, by, i, form, float(si.si_value(g)), s * n + i, float(w)), key="accessors:get_state")
                f = sut_call("get_chemostat", system.get_chemostat, sr, pos)
                if int(f) != m_flags[s * n + i]:
                    raise Violation("%s: get_chemostat(species %d, cell %d as %s) = %r, entry holds %r" % (
                        what, s, i, form, f, m_flags[s * n + i]), key="accessors:get_chemostat")
                if sut_call("get_state_index", system.get_state_index, sr, pos) != s * n + i:
                    raise Violation("get_state_index(%d, %d) != %d" % (s, i, s * n + i), key="accessors:index")

    read_all(c["by"], c["form"], "after construction")
    sys_q = si.QUANTITY[spec["sys_units"]["sys"]["quantity"]]
    for wr in c["writes"]:
        s, i = wr["s"] % ns, wr["cell"] % n
        sr = species_ref(system, spec, s, wr["by"])
        pos = positions(spec, i, wr["form"])
        if wr["kind"] == "flag":
            sut_call("set_chemostat", system.set_chemostat, sr, pos, wr["flag"])
            m_flags[s * n + i] = int(wr["flag"])
        else:
            # choose a value that is 'wr.value' molecules-ish but expressed in the drawn unit
            if wr["kind"] == "state-number":
                val = float(F(wr["value"]) / sys_q)
                sut_call("set_state", system.set_state, sr, pos, val)
                m_state[s * n + i] = F(val) * sys_q
            else:
                val = float(F(wr["value"]) / si.QUANTITY[wr["unit"]])
                obj = S.UnitValue(val, wr["unit"]) if wr["kind"] == "state-uv" else S.UnitValue("%r %s" % (val, wr["unit"]))
                sut_call("set_state", system.set_state, sr, pos, obj)
                m_state[s * n + i] = F(val) * si.QUANTITY[wr["unit"]]
        # full-array comparison after every write
        got = si.si_values(system.state)
        for t in range(n * ns):
            if abs(got[t] - m_state[t]) > RTOL * abs(m_state[t]):
                raise Violation("after set_state(species %d, cell %d as %s): entry %d = %r molecules, model %r" % (
                    s, i, wr["form"], t, float(got[t]), float(m_state[t])), key="accessors:set_state")
        if [int(v) for v in system.chemostats] != m_flags:
            raise Violation("after set_chemostat(species %d, cell %d): map %s, model %s" % (
                s, i, [int(v) for v in system.chemostats], m_flags), key="accessors:set_chemostat")
        if system.state.units.sys["quantity"] != qsym:
            raise Violation("a write changed the state's units", key="accessors:units")
    if c["writes"]:
        read_all(c["by"], c["form"], "after writes")


def strat_regen(ctx):
    return st.fixed_dictionaries({
        "sys": gen.system_spec(variety="any", max_species=3, max_reactions=0, max_cells=8,
                               chemostats="species", state="default"),
        "route": st.sampled_from(["ctor", "dict"]),
        "which": st.integers(0, 10),
        "new_density": gen.env_value(["", "a", "b", "cyt", "mem"], lambda dr: dr(gen.mantissa()) * F(10) ** dr(st.integers(18, 21)), "any"),
        "new_flag": st.one_of(st.booleans(), st.dictionaries(st.sampled_from(["", "a", "b", "cyt", "mem", "default"]), st.booleans(), max_size=3)),
        # the volumes are edited as well (grid: cell_vol; graph: one node's volume) after the space has served once
        "vol_factor": st.sampled_from([None, None, 2.0, 0.5, 3.0]), "vol_node": st.integers(0, 7),
    })


def check_regen(ctx, c):
    spec = c["sys"]
    model = Model(spec)
    k = c["which"] % model.ns
    ctx.note(c, model.n >= 2 and model.ns >= 2, ["regen", "space:" + spec["space"]["type"]])
    system = sut_call("build_system", B.build_system, spec, c["route"])
    before = [float(v) for v in system.state.value]
    before_f = [int(v) for v in system.chemostats]
    sp = system.network.species[k]
    us = spec["species"][k]["units"]["sys"]
    sut_call("species.density = ...", setattr, sp, "density", B.envval_obj(c["new_density"], us, gen.DIM_DENS, "ctor"))
    sut_call("species.chstt = ...", setattr, sp, "chstt", c["new_flag"] if not isinstance(c["new_flag"], dict) else dict(c["new_flag"]))
    if [float(v) for v in system.state.value] != before or [int(v) for v in system.chemostats] != before_f:
        raise Violation("editing a species changed the system state / map before regeneration", key="regen:early")
    vol = list(model.vol)
    vf = c.get("vol_factor")
    if vf is not None:
        space = system.space
        if spec["space"]["type"] == "grid":
            sut_call("space.cell_vol = ...", setattr, space, "cell_vol", space.cell_vol * vf)
            vol = [v * vf for v in vol]
        else:
            j = c["vol_node"] % model.n
            sut_call("node.volume = ...", setattr, space.nodes[j], "volume", space.nodes[j].volume * vf)
            vol[j] *= vf
        ctx.count("regen:volume-edited")
        if [float(v) for v in system.state.value] != before:
            raise Violation("editing a volume changed the system state before regeneration", key="regen:early")
    sut_call("set_default_state", system.set_default_state)
    sut_call("set_default_chemostats", system.set_default_chemostats)
    want = [env_lookup(spec["species"][s_]["density"], model.env_label[i]) * vol[i] for s_ in range(model.ns) for i in range(model.n)]
    wantf = list(model.default_flags)
    for i in range(model.n):
        want[k * model.n + i] = env_lookup(c["new_density"], model.env_label[i]) * vol[i]
        wantf[k * model.n + i] = flag_lookup(c["new_flag"], model.env_label[i])
    check_state_array(system, model, spec, want, "regenerated state")
    if [int(v) for v in system.chemostats] != wantf:
        raise Violation("regenerated chemostat map %s, expected %s" % ([int(v) for v in system.chemostats], wantf),
                        key="regen:flags")


RULE = RULE + " " + ("Since seeded round 4 the regenerate facet also edits volumes (grid: cell_vol; graph: one node's volume) through the public setters on a space that has already served, before the defaults are regenerated.")

FACETS = [
    Facet("defaults", check_defaults, strategy=strat_defaults, examples=(2400, 40000), shards=(8, 16)),
    Facet("accessors", check_accessors, strategy=strat_accessors, examples=(800, 10000), shards=(8, 16)),
    Facet("regenerate", check_regen, strategy=strat_regen, examples=(400, 10000), shards=(4, 16)),
]
