"""One (facet, shard) task in its own process: python -m vlib.task '<json args>'.
Writes the result dict as JSON to args["out"]; a breadcrumb file (args["crumb"]) holds the case that
is being checked, so that a crash or hang of the code under test can be attributed to an input."""
import json
import sys


def main():
    a = json.loads(sys.argv[1])
    from vlib import runner
    if a.get("replay"):
        sys.exit(runner.replay_inproc(a["prop"], a["replay"]))
    r = runner.run_task(a["prop"], a["tier"], a["seed"], a["facet"], a["shard"], a["nshards"], a.get("crumb"))
    with open(a["out"] + ".tmp", "w") as f:
        json.dump(r, f, default=str)
    import os
    os.replace(a["out"] + ".tmp", a["out"])


if __name__ == "__main__":
    main()
