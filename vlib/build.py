"""Build the native engine from the working tree of the repository under test.

The in-repo engine*.so is an untracked artefact that goes stale when a header is edited, so no
check loads it.  Libraries are cached under /verif/.build/<sha of the ten engine sources>/.
"""
import fcntl
import hashlib
import os
import shutil
import subprocess
import sys

VERIF = os.path.dirname(os.path.dirname(os.path.abspath(__file__)))
REPO = os.environ.get("VERIF_REPO", "/repo")
SRC = os.path.join(REPO, "src", "strengths", "engines", "strengths_engine", "src")
BUILD = os.path.join(VERIF, ".build")

KINDS = {
    "plain": (["g++", "-std=c++11", "-O2", "-fPIC", "-shared"], "engine_plain.so"),
    "san": (["g++", "-std=c++11", "-O1", "-g", "-fPIC", "-shared",
             "-fsanitize=address,undefined", "-fno-sanitize-recover=undefined",
             "-D_GLIBCXX_ASSERTIONS", "-fno-omit-frame-pointer"], "engine_san.so"),
}


class BuildError(RuntimeError):
    pass


def source_hash():
    h = hashlib.sha1()
    for name in sorted(os.listdir(SRC)):
        p = os.path.join(SRC, name)
        if os.path.isfile(p):
            h.update(name.encode())
            with open(p, "rb") as f:
                h.update(f.read())
    return h.hexdigest()[:16]


def _prune(keep, keep_n=6):
    """Disk hygiene: keep the build of the current tree and the few most recent other ones (sensitivity runs
    against scratch copies may be using theirs concurrently)."""
    try:
        dirs = [os.path.join(BUILD, d) for d in os.listdir(BUILD)
                if os.path.isdir(os.path.join(BUILD, d)) and d != keep]
        dirs.sort(key=os.path.getmtime, reverse=True)
        for p in dirs[keep_n:]:
            shutil.rmtree(p, ignore_errors=True)
    except FileNotFoundError:
        pass


def engine_path(kind="plain"):
    """Return the path of a freshly built (or cached, same source hash) engine library."""
    cmd, out_name = KINDS[kind]
    sha = source_hash()
    d = os.path.join(BUILD, sha)
    out = os.path.join(d, out_name)
    if os.path.exists(out):
        return out
    os.makedirs(d, exist_ok=True)
    lock = open(os.path.join(BUILD, ".lock"), "w")
    fcntl.flock(lock, fcntl.LOCK_EX)
    try:
        if os.path.exists(out):
            return out
        tmp = out + ".tmp%d" % os.getpid()
        r = subprocess.run(cmd + ["-I", SRC, os.path.join(SRC, "engine.cpp"), "-o", tmp],
                           capture_output=True, text=True)
        if r.returncode != 0:
            raise BuildError("engine build (%s) failed:\n%s" % (kind, r.stderr[-4000:]))
        os.replace(tmp, out)
        _prune(sha)
        return out
    finally:
        fcntl.flock(lock, fcntl.LOCK_UN)
        lock.close()


def fuzzer_path():
    """libFuzzer binary (clang++-14, ASan + UBSan + hardened libstdc++) that #includes the tree's engine.cpp."""
    sha = source_hash()
    d = os.path.join(BUILD, sha)
    out = os.path.join(d, "engine_fuzz")
    if os.path.exists(out):
        return out
    os.makedirs(d, exist_ok=True)
    lock = open(os.path.join(BUILD, ".lock-fuzz"), "w")
    fcntl.flock(lock, fcntl.LOCK_EX)
    try:
        if os.path.exists(out):
            return out
        tmp = out + ".tmp%d" % os.getpid()
        cmd = ["clang++-14", "-std=c++14", "-O1", "-g", "-fsanitize=fuzzer,address,undefined", "-fno-sanitize-recover=undefined",
               "-D_GLIBCXX_ASSERTIONS", "-I", SRC, os.path.join(VERIF, "fuzz", "engine_fuzz.cpp"), "-o", tmp]
        r = subprocess.run(cmd, capture_output=True, text=True)
        if r.returncode != 0:
            raise BuildError("fuzzer build failed:\n" + r.stderr[-3000:])
        os.replace(tmp, out)
        return out
    finally:
        fcntl.flock(lock, fcntl.LOCK_UN)
        lock.close()


def asan_runtime():
    r = subprocess.run(["g++", "-print-file-name=libasan.so"], capture_output=True, text=True)
    return r.stdout.strip()


if __name__ == "__main__":
    for k in sys.argv[1:] or ["plain"]:
        print(k, engine_path(k))
