"""Run an Atheris target (fuzz/*.py) as a bounded campaign; used by thorough-tier facets."""
import os
import re
import shutil
import subprocess
import sys
import tempfile

VERIF = os.path.dirname(os.path.dirname(os.path.abspath(__file__)))


def available():
    return os.path.isdir(os.path.join(VERIF, ".deps", "atheris"))


def campaign(target, runs, seed, seeds_dir=None, prop="C18", timeout=7200):
    """-> (executions, None) or (executions, {"message":..., "artifact": path})"""
    work = tempfile.mkdtemp(prefix="atheris-", dir=os.path.join(VERIF, ".work"))
    try:
        corpus = os.path.join(work, "corpus")
        os.makedirs(corpus)
        if seeds_dir and os.path.isdir(seeds_dir):
            for n in os.listdir(seeds_dir):
                shutil.copy(os.path.join(seeds_dir, n), corpus)
        env = dict(os.environ)
        env["PYTHONPATH"] = os.path.join(VERIF, ".deps") + os.pathsep + env.get("PYTHONPATH", "")
        env["PYTHONHASHSEED"] = "0"
        r = subprocess.run([sys.executable, "-W", "ignore", os.path.join(VERIF, "fuzz", target), "-runs=%d" % runs,
                            "-seed=%d" % (seed or 1), "-max_len=64", "-timeout=30", "-artifact_prefix=" + os.path.join(work, "artifact-"),
                            "-print_final_stats=1", corpus], cwd=VERIF, env=env, capture_output=True, text=True, timeout=timeout)
        out = r.stdout + r.stderr
        m = re.search(r"stat::number_of_executed_units:\s*(\d+)", out)
        execs = int(m.group(1)) if m else 0
        arts = [f for f in os.listdir(work) if f.startswith("artifact-")]
        if r.returncode != 0 or arts:
            keep = os.path.join(VERIF, "found", prop)
            os.makedirs(keep, exist_ok=True)
            saved = None
            for a in arts:
                saved = os.path.join(keep, "atheris-" + target.replace(".py", "") + "-" + a)
                shutil.copy(os.path.join(work, a), saved)
            mm = re.search(r"(Mismatch: [^\n]*|ERROR: libFuzzer[^\n]*|\w+Error: [^\n]*)", out)
            return execs, {"message": (mm.group(1) if mm else "exit %d" % r.returncode)[:500], "artifact": saved,
                           "rerun": "PYTHONPATH=%s %s %s %s" % (os.path.join(VERIF, ".deps"), sys.executable, os.path.join(VERIF, "fuzz", target), saved)}
        return execs, None
    finally:
        shutil.rmtree(work, ignore_errors=True)
