"""Canonical physical content of strengths objects: labels, integers and exact SI Fractions,
read through public attributes only (.value, .units.sys[..], .units.dim[..]) -- not str()/convert().
"""
from fractions import Fraction as F

from vlib import si
from vlib import sut  # noqa: F401
import strengths as S


class Q:
    """An SI quantity (Fraction value + dimension) compared with a relative tolerance."""
    __slots__ = ("v", "dim")

    def __init__(self, v, dim):
        self.v, self.dim = v, dim

    def __repr__(self):
        return "Q(%r, %s)" % (float(self.v), self.dim)


def q(uv):
    return Q(si.si_value(uv), tuple(si.dimdict(uv.units.dim)[k] for k in si.KINDS))


def qa(ua):
    dim = tuple(si.dimdict(ua.units.dim)[k] for k in si.KINDS)
    return [Q(v, dim) for v in si.si_values(ua)]


def envval(v):
    if isinstance(v, dict):
        return {k: (q(x) if isinstance(x, S.UnitValue) else x) for k, x in v.items()}
    return q(v)


def usys(u):
    return dict(si.sysdict(u))


def species(s):
    ch = s.chstt
    return {"label": s.label, "units": usys(s.units_system), "D": envval(s.D), "density": envval(s.density),
            "chstt": dict(ch) if isinstance(ch, dict) else bool(ch)}


def reaction(r):
    return {"label": r.label, "units": usys(r.units_system),
            "sub": {k: v for k, v in r.substrates.items() if v != 0},
            "prod": {k: v for k, v in r.products.items() if v != 0},
            "kf": envval(r.kf), "kr": envval(r.kr)}


def network(n):
    return {"env": list(n.environments), "units": usys(n.units_system),
            "species": [species(s) for s in n.species], "reactions": [reaction(r) for r in n.reactions]}


def space(sp):
    if isinstance(sp, S.RDGridSpace):
        return {"type": "grid", "w": sp.w, "h": sp.h, "d": sp.d, "bc": dict(sp.get_boundary_conditions()),
                "cell_env": [int(v) for v in sp.cell_env], "cell_vol": q(sp.cell_vol), "units": usys(sp.units_system)}
    return {"type": "graph", "units": usys(sp.units_system),
            "nodes": [{"vol": q(n.volume), "env": int(n.environment), "units": usys(n.units_system)} for n in sp.nodes],
            "edges": [{"i": e.i, "j": e.j, "sfc": q(e.surface), "dst": q(e.distance), "units": usys(e.units_system)}
                      for e in sp.edges]}


def system(sy):
    return {"units": usys(sy.units_system), "network": network(sy.network), "space": space(sy.space),
            "state": qa(sy.state), "state_unit": sy.state.units.sys["quantity"],
            "chemostats": [int(v) for v in sy.chemostats]}


def script(sc):
    return {"units": usys(sc.units_system), "system": system(sc.system), "t_sample": qa(sc.t_sample),
            "time_step": q(sc.time_step), "t_max": q(sc.t_max), "sampling_policy": sc.sampling_policy,
            "sampling_interval": q(sc.sampling_interval), "rng_seed": sc.rng_seed,
            "init_state_processing": sc.init_state_processing}


def trajectory(tr):
    return {"script": script(tr.script) if tr.script is not None else None, "system": system(tr.system),
            "t": qa(tr.t), "data": qa(tr.data), "engine_description": tr.engine_description,
            "engine_option": tr.engine_option, "cgmap": list(tr.cgmap) if tr.cgmap is not None else None,
            "data_unit": tr.data.units.sys["quantity"], "t_unit": tr.t.units.sys["time"]}


def diff(a, b, path="", rtol=F(1, 10 ** 12)):
    """-> None if equal, else a string describing the first difference."""
    if isinstance(a, Q) or isinstance(b, Q):
        if not (isinstance(a, Q) and isinstance(b, Q)):
            return "%s: %r vs %r" % (path, a, b)
        if a.dim != b.dim:
            return "%s: dimension %s vs %s" % (path, a.dim, b.dim)
        if abs(a.v - b.v) > rtol * max(abs(a.v), abs(b.v)):
            return "%s: SI value %r vs %r" % (path, float(a.v), float(b.v))
        return None
    if isinstance(a, dict) and isinstance(b, dict):
        if set(a) != set(b):
            return "%s: keys %s vs %s" % (path, sorted(map(str, a)), sorted(map(str, b)))
        for k in a:
            d = diff(a[k], b[k], "%s.%s" % (path, k), rtol)
            if d:
                return d
        return None
    if isinstance(a, (list, tuple)) and isinstance(b, (list, tuple)):
        if len(a) != len(b):
            return "%s: length %d vs %d" % (path, len(a), len(b))
        for i, (x, y) in enumerate(zip(a, b)):
            d = diff(x, y, "%s[%d]" % (path, i), rtol)
            if d:
                return d
        return None
    if a != b or type(a) is not type(b) and not (isinstance(a, (int, bool)) and isinstance(b, (int, bool))):
        return "%s: %r vs %r" % (path, a, b)
    return None
