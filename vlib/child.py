"""Parent side of the child-process sandbox (crash / hang isolation, clean-room references,
sanitized engine library)."""
import json
import os
import select
import signal
import subprocess
import sys
import tempfile

VERIF = os.path.dirname(os.path.dirname(os.path.abspath(__file__)))


class Child:
    def __init__(self, lib="plain"):
        self.lib = lib
        self.proc = None
        self.errfile = None

    def start(self):
        env = dict(os.environ)
        env["PYTHONHASHSEED"] = "0"
        if self.lib == "san":
            from vlib import build
            build.engine_path("san")
            env["LD_PRELOAD"] = build.asan_runtime()
            # Python's small-object allocator would hide the buffers (ctypes arrays) that the engine writes its results
            # into: with the system allocator every one of them is an ASan-tracked heap block with red zones
            env["PYTHONMALLOC"] = "malloc"
            env["ASAN_OPTIONS"] = "detect_leaks=0:abort_on_error=1:halt_on_error=1:allocator_may_return_null=1"
            env["UBSAN_OPTIONS"] = "halt_on_error=1:print_stacktrace=1:abort_on_error=1"
        os.makedirs(os.path.join(VERIF, ".work"), exist_ok=True)
        self.errfile = tempfile.NamedTemporaryFile("w+", prefix="child-err-", dir=os.path.join(VERIF, ".work"), delete=False)
        self.proc = subprocess.Popen([sys.executable, "-W", "ignore", "-m", "vlib.worker", self.lib], cwd=VERIF, env=env,
                                     stdin=subprocess.PIPE, stdout=subprocess.PIPE, stderr=self.errfile, text=True, bufsize=1)

    def _stderr_tail(self, n=4000):
        try:
            self.errfile.flush()
            with open(self.errfile.name) as f:
                txt = f.read()
            return txt[-n:]
        except Exception:  # noqa: BLE001
            return ""

    def run(self, job, timeout=60.0):
        """-> ("ok", reply) | ("timeout", None) | ("died", {"signal": n or None, "code": rc, "stderr": tail})"""
        if self.proc is None or self.proc.poll() is not None:
            self.close()
            self.start()
        try:
            self.proc.stdin.write(json.dumps(job) + "\n")
            self.proc.stdin.flush()
        except BrokenPipeError:
            return self._died()
        fd = self.proc.stdout
        r, _, _ = select.select([fd], [], [], timeout)
        if not r:
            self.kill()
            return ("timeout", None)
        line = fd.readline()
        if not line:
            return self._died()
        try:
            return ("ok", json.loads(line))
        except Exception:  # noqa: BLE001
            return self._died()

    def _died(self):
        try:
            rc = self.proc.wait(timeout=10)
        except Exception:  # noqa: BLE001
            self.kill()
            rc = None
        info = {"signal": (-rc if rc is not None and rc < 0 else None), "code": rc, "stderr": self._stderr_tail()}
        self.close()
        return ("died", info)

    def kill(self):
        if self.proc is not None:
            try:
                self.proc.send_signal(signal.SIGKILL)
                self.proc.wait(timeout=10)
            except Exception:  # noqa: BLE001
                pass
        self.close()

    def close(self):
        if self.proc is not None:
            try:
                if self.proc.poll() is None:
                    self.proc.stdin.close()
                    self.proc.wait(timeout=5)
            except Exception:  # noqa: BLE001
                try:
                    self.proc.kill()
                except Exception:  # noqa: BLE001
                    pass
            self.proc = None
        if self.errfile is not None:
            try:
                name = self.errfile.name
                self.errfile.close()
                os.unlink(name)
            except Exception:  # noqa: BLE001
                pass
            self.errfile = None


def one_shot(job, lib="plain", timeout=60.0):
    """Run a job in a brand-new process (clean-room)."""
    c = Child(lib)
    try:
        return c.run(job, timeout)
    finally:
        c.close()
