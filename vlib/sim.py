"""Helpers to run the native engine built from the tree under test (in-process)."""
from vlib import si
from vlib import sut
import strengths as S

_ready = {}


def setup_plain(ctx=None):
    if "plain" not in _ready:
        sut.use_engine("plain")
        _ready["plain"] = True


def engine(kind):
    setup_plain()
    return {"euler": S.euler_engine, "gillespie": S.gillespie_engine, "tauleap": S.tauleap_engine}[kind]()


def drive(script, kind, n_iter=None, explicit_samples=(), eng=None):
    """setup; iterate (n_iter times, or run to completion); output; finalize.
    -> (trajectory, iterations_done, complete).  eng: an engine object to (re)use instead of a new one."""
    if eng is None:
        eng = engine(kind)
    eng.setup(script)
    try:
        done = 0
        if n_iter is None:
            while eng.run(1000):
                pass
            complete = True
        else:
            complete = False
            for k in range(n_iter):
                cont = eng.iterate()
                done += 1
                if k in explicit_samples:
                    eng.sample()
                if not cont:
                    complete = True
                    break
        out = eng.get_output()
    finally:
        eng.finalize()
    return out, done, complete


def traj_arrays(traj):
    """-> (t in SI seconds list, data in molecules list (flat), raw data values, raw t values)"""
    t = [float(v) for v in si.si_values(traj.t)]
    d = [float(v) for v in si.si_values(traj.data)]
    return t, d
