"""Child worker: executes engine call histories in its own process.

protocol: one JSON job per stdin line, one JSON reply per stdout line.
job = {"scripts": [script spec, ...], "calls": [[op, engine name, arg...], ...], "lib": "plain"|"san"}
ops: new(kind) setup(script index) iterate iterate_n(n) run(ms) sample progress complete output finalize simulate(script index, print_progress)
     sample0(script index, [seeds]) -> setup/output/finalize for each seed, returns first-sample arrays
reply = {"results": [per call result], "error": None | "<type>: msg at call k"}
"""
import json
import sys
import time


def main():
    lib = sys.argv[1] if len(sys.argv) > 1 else "plain"
    from vlib import sut
    sut.use_engine(lib)
    from vlib import build_model as B
    import strengths as S
    factories = {"euler": S.euler_engine, "gillespie": S.gillespie_engine, "tauleap": S.tauleap_engine}
    out = sys.stdout
    for line in sys.stdin:
        line = line.strip()
        if not line:
            continue
        job = json.loads(line)
        results = []
        err = None
        engines = {}
        try:
            scripts = [B.build_script(s) for s in job.get("scripts", [])]
            for k, call in enumerate(job["calls"]):
                op, name = call[0], call[1]
                t0 = time.time()
                try:
                    if op == "new":
                        engines[name] = factories[call[2]]()
                        r = None
                    elif op == "setup":
                        sc = scripts[call[2]]
                        if len(call) > 3 and call[3] is not None:
                            sc = sc.copy()
                            sc.rng_seed = call[3]
                        engines[name].setup(sc)
                        r = None
                    elif op == "iterate":
                        r = bool(engines[name].iterate())
                    elif op == "iterate_n":
                        r = bool(engines[name].iterate_n(call[2]))
                    elif op == "run":
                        r = bool(engines[name].run(call[2]))
                    elif op == "run_loop":
                        n_slices = 0
                        while engines[name].run(1):
                            n_slices += 1
                        r = False
                    elif op == "sample":
                        engines[name].sample()
                        r = None
                    elif op == "progress":
                        r = float(engines[name].get_progress())
                    elif op == "complete":
                        r = bool(engines[name].is_complete())
                    elif op == "output":
                        o = engines[name].get_output()
                        r = {"t": [float(v) for v in o.t.value], "data": [float(v) for v in o.data.value],
                             "tunit": o.t.units.sys["time"], "qunit": o.data.units.sys["quantity"],
                             "seed": o.script.rng_seed}
                    elif op == "finalize":
                        engines[name].finalize()
                        r = None
                    elif op == "simulate":
                        # the package's own driver loop: simulate_script(script, engine, print_progress=call[3])
                        import contextlib
                        import io
                        with contextlib.redirect_stdout(io.StringIO()):
                            o = S.simulate_script(scripts[call[2]], engines[name], print_progress=bool(call[3]))
                        r = {"t": [float(v) for v in o.t.value], "data": [float(v) for v in o.data.value],
                             "tunit": o.t.units.sys["time"], "qunit": o.data.units.sys["quantity"], "seed": o.script.rng_seed}
                    elif op == "sample0":
                        r = []
                        n = None
                        for seed in call[3]:
                            sc = scripts[call[2]].copy()
                            sc.rng_seed = seed
                            engines[name].setup(sc)
                            o = engines[name].get_output()
                            engines[name].finalize()
                            if n is None:
                                n = sc.system.state_size()
                            r.append([float(v) for v in o.data.value][:n])
                    else:
                        raise ValueError("unknown op " + op)
                    results.append({"r": r, "s": round(time.time() - t0, 4)})
                except Exception as e:  # noqa: BLE001
                    results.append({"exc": "%s: %s" % (type(e).__name__, str(e)[:300])})
        except Exception as e:  # noqa: BLE001
            err = "%s: %s" % (type(e).__name__, str(e)[:500])
        out.write(json.dumps({"results": results, "error": err}) + "\n")
        out.flush()


if __name__ == "__main__":
    main()
