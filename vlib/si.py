"""Exact SI table, written from the SI definitions and the documentation's symbol table
(documentation/using_quantities_with_units.rst) -- NOT copied from strengths' conversion dict.

Reference base: metre, second, molecule (1 mol = 6.02214076e23 molecules exactly, CGPM 2018).
"""
from fractions import Fraction as F

_PREFIX = {"k": F(10) ** 3, "": F(1), "d": F(1, 10), "c": F(1, 100), "m": F(1, 1000),
           "µ": F(1, 10 ** 6), "n": F(1, 10 ** 9), "p": F(1, 10 ** 12), "f": F(1, 10 ** 15)}

SPACE = {p + "m": s for p, s in _PREFIX.items()}
# two non-SI convenience symbols of the documentation table: tenth and hundredth of a millimetre
SPACE["dmm"] = F(1, 10 ** 4)
SPACE["cmm"] = F(1, 10 ** 5)

TIME = {p + "s": s for p, s in _PREFIX.items() if p != "k"}
TIME["min"] = F(60)
TIME["h"] = F(3600)

AVOGADRO = F(602214076) * 10 ** 15
QUANTITY = {p + "mol": s * AVOGADRO for p, s in _PREFIX.items()}
QUANTITY["molecule"] = F(1)

BASE = {"space": SPACE, "time": TIME, "quantity": QUANTITY}
KINDS = ("space", "time", "quantity")

SPACE_SYMS = ["km", "m", "dm", "cm", "mm", "dmm", "cmm", "µm", "nm", "pm", "fm"]
TIME_SYMS = ["h", "min", "s", "ds", "cs", "ms", "µs", "ns", "ps", "fs"]
QUANTITY_SYMS = ["kmol", "mol", "dmol", "cmol", "mmol", "µmol", "nmol", "pmol", "fmol", "molecule"]
SYMS = {"space": SPACE_SYMS, "time": TIME_SYMS, "quantity": QUANTITY_SYMS}
assert set(SPACE_SYMS) == set(SPACE) and set(TIME_SYMS) == set(TIME) and set(QUANTITY_SYMS) == set(QUANTITY)

# litre family: 1 L = 1 dm^3; x L = (edge)^3 with the edge a supported space symbol
LITRE = {"kL": "m", "L": "dm", "mL": "cm", "µL": "mm", "nL": "dmm", "pL": "cmm", "fL": "µm"}
_LITRE_SI = {"kL": F(1), "L": F(1, 10 ** 3), "mL": F(1, 10 ** 6), "µL": F(1, 10 ** 9),
             "nL": F(1, 10 ** 12), "pL": F(1, 10 ** 15), "fL": F(1, 10 ** 18)}
for _k, _e in LITRE.items():
    assert SPACE[_e] ** 3 == _LITRE_SI[_k], _k
# molar family: x M = x mol per litre = x mol . dm^-3
MOLAR = {p + "M": (p + "mol", "dm") for p in _PREFIX}

DEFAULT_SYS = {"space": "µm", "time": "s", "quantity": "molecule"}


def scale(sys, dim):
    """SI value of 1 unit of dimension `dim` (dict kind->int) in unit system `sys` (dict kind->symbol)."""
    f = F(1)
    for k in KINDS:
        e = dim.get(k, 0)
        if e:
            f *= BASE[k][sys[k]] ** e
    return f


def factor(src, dst, dim):
    """Exact factor converting a value of dimension dim from system src to system dst."""
    return scale(src, dim) / scale(dst, dim)


def unit_str(sys, dim, style=0):
    """A documented-grammar spelling of the unit sys^dim. style 0: 'a.b-1' ; 1: 'a/b' ; order fixed."""
    parts = []
    if style == 2:
        # every base written once per unit of exponent: m2 -> m.m ; s-2 -> /s/s (a leading negative exponent keeps its
        # first factor as 'sym-1'): the same unit, with the exponent of a base spread over several factors
        for k in KINDS:
            e = dim.get(k, 0)
            sym = sys[k]
            for _ in range(abs(e)):
                if e > 0:
                    parts.append(("." if parts else "") + sym)
                elif parts:
                    parts.append("/" + sym)
                else:
                    parts.append(sym + "-1")
        return "".join(parts)
    for k in KINDS:
        e = dim.get(k, 0)
        if e == 0:
            continue
        sym = sys[k]
        if style == 1 and e < 0 and parts:
            parts.append("/" + sym + ("" if e == -1 else str(-e)))
        else:
            parts.append(("." if parts else "") + sym + ("" if e == 1 else str(e)))
    return "".join(parts)


def sysdict(obj):
    """UnitsSystem (or dict) -> plain dict."""
    return {k: obj[k] for k in KINDS}


def dimdict(obj):
    return {k: int(obj[k]) for k in KINDS}


def si_value(uv):
    """Exact SI value of a strengths UnitValue, through public attributes only."""
    return F(uv.value) * scale(sysdict(uv.units.sys), dimdict(uv.units.dim))


def si_values(ua):
    s = scale(sysdict(ua.units.sys), dimdict(ua.units.dim))
    return [F(float(v)) * s for v in ua.value]


def si_floats(ua):
    """SI values as floats (tolerates inf/nan in the data)."""
    s = float(scale(sysdict(ua.units.sys), dimdict(ua.units.dim)))
    return [float(v) * s for v in ua.value]
