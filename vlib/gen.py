"""Shared Hypothesis generators.  Every case is a plain JSON spec; physical values are stored as exact
SI rationals (strings "num/den", base metre / second / molecule) so that the oracle never depends on
the object built by the code under test.
"""
from fractions import Fraction as F

from hypothesis import strategies as st

from vlib import si

KINDS = si.KINDS
DEFAULT = dict(si.DEFAULT_SYS)

DIM_D = {"space": 2, "time": -1, "quantity": 0}
DIM_DENS = {"space": -3, "time": 0, "quantity": 1}
DIM_VOL = {"space": 3, "time": 0, "quantity": 0}
DIM_SFC = {"space": 2, "time": 0, "quantity": 0}
DIM_LEN = {"space": 1, "time": 0, "quantity": 0}
DIM_QTY = {"space": 0, "time": 0, "quantity": 1}
DIM_TIME = {"space": 0, "time": 1, "quantity": 0}
DIM_RATE = {"space": 0, "time": -1, "quantity": 1}


def dim_k(order):
    return {"space": 3 * order - 3, "time": -1, "quantity": 1 - order}


def fs(x):
    """Fraction -> canonical string."""
    x = F(x)
    return "%d/%d" % (x.numerator, x.denominator)


def pf(s):
    """string -> Fraction."""
    return F(s)


us_any = st.fixed_dictionaries({"space": st.sampled_from(si.SPACE_SYMS),
                                "time": st.sampled_from(si.TIME_SYMS),
                                "quantity": st.sampled_from(si.QUANTITY_SYMS)})
# a milder family (used where huge scale factors would only produce overflow, not insight)
us_mild = st.fixed_dictionaries({"space": st.sampled_from(["m", "cm", "mm", "dmm", "µm", "nm"]),
                                 "time": st.sampled_from(["h", "min", "s", "ds", "ms", "µs"]),
                                 "quantity": st.sampled_from(["mol", "mmol", "µmol", "nmol", "fmol", "molecule"])})


@st.composite
def units_level(draw, parent, variety):
    """Units declaration of one nesting level.
    -> {"mode": explicit|inherit|default|omit, "sys": resolved unit system}"""
    if variety == "default":
        return {"mode": "omit", "sys": dict(parent)}
    r = draw(st.integers(0, 9))
    if r <= 3:
        base = us_any if variety == "any" else us_mild
        return {"mode": "explicit", "sys": draw(base)}
    if r <= 5:
        return {"mode": "inherit", "sys": dict(parent)}
    if r <= 6:
        return {"mode": "default", "sys": dict(DEFAULT)}
    return {"mode": "omit", "sys": dict(parent)}


@st.composite
def mantissa(draw, digits=3):
    """a short decimal in [1, 10)"""
    m = draw(st.integers(10 ** (digits - 1), 10 ** digits - 1))
    return F(m, 10 ** (digits - 1))


@st.composite
def qv(draw, si_value, variety, allow_zero_form=True):
    """A quantity value: exact SI rational + the form in which it is handed to strengths."""
    if variety == "default":
        form = draw(st.sampled_from(["bare", "bare", "str", "uv"]))
        return {"si": fs(si_value), "form": form, "sys": dict(DEFAULT), "style": draw(st.integers(0, 1))}
    form = draw(st.sampled_from(["bare", "bare", "str", "uv"]))
    base = us_any if variety == "any" else us_mild
    return {"si": fs(si_value), "form": form, "sys": draw(base), "style": draw(st.integers(0, 1))}


@st.composite
def env_value(draw, envs, make_si, variety, p_dict=0.5, zero_ok=True):
    """Scalar or per-environment dict (with 'default' and comma-joined keys) of quantity values.
    make_si(draw) -> Fraction (may return 0)."""
    if draw(st.integers(0, 99)) >= int(100 * p_dict):
        return draw(qv(make_si(draw), variety))
    keys = list(envs)
    d = {}
    # choose which environments get an explicit entry
    explicit = [e for e in keys if draw(st.booleans())]
    if draw(st.booleans()):
        d["default"] = draw(qv(make_si(draw), variety))
    if len(explicit) >= 2 and draw(st.integers(0, 2)) == 0 and all(e != "" for e in explicit[:2]):
        # comma-joined key: one value for two environments
        d["%s, %s" % (explicit[0], explicit[1])] = draw(qv(make_si(draw), variety))
        explicit = explicit[2:]
    for e in explicit:
        d[e] = draw(qv(make_si(draw), variety))
    return d


ENV_LABELS = ["", "a", "b", "cyt", "mem"]
SPECIES_LABELS = ["A", "B", "C", "D2", "E"]


@st.composite
def space_spec(draw, parent_sys, variety, ev, kind="any", max_cells=12, n_env=1, simple_graph=True,
               periodic=True, max_axis=4):
    """ev: exponent (multiple of 3) of the reference volume in m^3."""
    us = draw(units_level(parent_sys, variety))
    vref = F(10) ** ev
    if kind == "any":
        kind = draw(st.sampled_from(["grid", "grid", "graph"]))
    if kind == "grid":
        dims = [draw(st.integers(1, max_axis)) for _ in range(3)]
        while dims[0] * dims[1] * dims[2] > max_cells:
            k = dims.index(max(dims))
            dims[k] -= 1
        w, h, d = dims
        n = w * h * d
        bc = {}
        for ax in "xyz":
            r = draw(st.integers(0, 3)) if periodic else 0
            if r == 1:
                bc[ax] = "periodical"
            elif r == 2:
                bc[ax] = "reflecting"
        cell_env = [draw(st.integers(0, n_env - 1)) for _ in range(n)]
        env_form = "list"
        if len(set(cell_env)) == 1 and draw(st.booleans()):
            env_form = "scalar"
        vol = draw(qv(draw(mantissa()) * vref, variety))
        return {"type": "grid", "units": us, "w": w, "h": h, "d": d, "bc": bc, "cell_env": cell_env,
                "cell_env_form": env_form, "cell_vol": vol}
    n = draw(st.integers(1, min(8, max_cells)))
    nodes = []
    for i in range(n):
        nu = draw(units_level(us["sys"], variety))
        nodes.append({"units": nu, "vol": draw(qv(draw(mantissa()) * vref, variety)),
                      "env": draw(st.integers(0, n_env - 1))})
    pairs = [(i, j) for i in range(n) for j in range(i + 1, n)]
    edges = []
    if pairs:
        chosen = draw(st.lists(st.sampled_from(pairs), max_size=min(len(pairs), 10), unique=simple_graph))
        if not simple_graph and draw(st.booleans()):
            chosen = chosen + [(draw(st.integers(0, n - 1)),) * 2]
        for (i, j) in chosen:
            if draw(st.booleans()):
                i, j = j, i
            eu = draw(units_level(us["sys"], variety))
            href = F(10) ** (ev // 3)
            edges.append({"units": eu, "i": i, "j": j,
                          "sfc": draw(qv(draw(mantissa()) * href ** 2, variety)),
                          "dst": draw(qv(draw(mantissa()) * href, variety))})
    return {"type": "graph", "units": us, "nodes": nodes, "edges": edges}


def space_size(sp):
    return sp["w"] * sp["h"] * sp["d"] if sp["type"] == "grid" else len(sp["nodes"])


def space_envs(sp):
    return list(sp["cell_env"]) if sp["type"] == "grid" else [n["env"] for n in sp["nodes"]]


@st.composite
def stoich_side(draw, labels, max_order):
    order = draw(st.integers(0, max_order))
    side = {}
    for _ in range(order):
        s = draw(st.sampled_from(labels))
        side[s] = side.get(s, 0) + 1
    if draw(st.integers(0, 9)) == 0:
        z = draw(st.sampled_from(labels))
        side.setdefault(z, 0)  # explicit zero coefficient
    return side


@st.composite
def system_spec(draw, variety="mild", space_kind="any", max_species=4, max_reactions=3, max_order=3,
                max_env=3, max_cells=12, chemostats="none", state="any", simple_graph=True,
                periodic=True, count_exp=(0, 3), rate_exp=(-2, 1), max_axis=4, min_species=1,
                reversible=True, min_reactions=0, max_reactions_override=None):
    """A complete reaction-diffusion system description (see module docstring)."""
    if chemostats == "mixed":
        chemostats = draw(st.sampled_from(["species", "map"]))
    n_env = draw(st.integers(1, max_env))
    envs = draw(st.lists(st.sampled_from(ENV_LABELS), min_size=n_env, max_size=n_env, unique=True))
    sys_units = draw(units_level(DEFAULT, variety))
    net_units = draw(units_level(sys_units["sys"], variety))
    ev = draw(st.sampled_from([-21, -18, -15]))
    vref = F(10) ** ev
    href = F(10) ** (ev // 3)
    space = draw(space_spec(sys_units["sys"], variety, ev, kind=space_kind, max_cells=max_cells,
                            n_env=n_env, simple_graph=simple_graph, periodic=periodic, max_axis=max_axis))
    n_sp = draw(st.sampled_from([k for k in (1, 2, 2, 3, 3, 4, 4, 5) if min_species <= k <= max_species]))
    labels = SPECIES_LABELS[:n_sp]

    def dens_si(dr):
        if dr(st.integers(0, 5)) == 0:
            return F(0)
        return dr(mantissa()) * F(10) ** dr(st.integers(*count_exp)) / vref

    def d_si(dr):
        if dr(st.integers(0, 4)) == 0:
            return F(0)
        return dr(mantissa()) * F(10) ** dr(st.integers(*rate_exp)) * href ** 2

    species = []
    for lb in labels:
        su = draw(units_level(net_units["sys"], variety))
        if chemostats == "species" and draw(st.booleans()):
            if draw(st.booleans()):
                ch = draw(st.booleans())
            else:
                ch = {}
                for e in envs:
                    if draw(st.booleans()):
                        ch[e] = draw(st.booleans())
                if draw(st.booleans()):
                    ch["default"] = draw(st.booleans())
        else:
            ch = False
        species.append({"label": lb, "units": su,
                        "D": draw(env_value(envs, d_si, variety)),
                        "density": draw(env_value(envs, dens_si, variety)),
                        "chstt": ch})
    reactions = []
    if max_reactions_override is not None:
        max_reactions = max_reactions_override
    n_r = draw(st.sampled_from([k for k in (0, 1, 1, 2, 2, 3, 3, 4, 5) if min_reactions <= k <= max_reactions]))
    for r in range(n_r):
        sub = draw(stoich_side(labels, max_order))
        prod = draw(stoich_side(labels, max_order))
        ru = draw(units_level(net_units["sys"], variety))
        n_f = sum(sub.values())
        n_b = sum(prod.values())

        def k_si(order):
            def f(dr):
                if dr(st.integers(0, 5)) == 0:
                    return F(0)
                # per-cell constant c = k V^(1-n) in 10^rate_exp per second, scaled down with order so
                # that c x^n stays comparable to x for counts ~ 10^count_exp
                c = dr(mantissa()) * F(10) ** (dr(st.integers(*rate_exp)) - max(0, order - 1) * count_exp[1])
                return c * vref ** (order - 1)
            return f
        kf = draw(env_value(envs, k_si(n_f), variety))
        if reversible and draw(st.booleans()):
            kr = draw(env_value(envs, k_si(n_b), variety))
        else:
            kr = draw(qv(F(0), variety))
        reactions.append({"sub": sub, "prod": prod, "units": ru, "kf": kf, "kr": kr,
                          "label": draw(st.sampled_from([None, None, "r%d" % r])),
                          "eq_form": draw(st.sampled_from(["str", "dicts"]))})
    n_cells = space_size(space)
    st_spec = None
    mode = state
    if state == "any":
        mode = draw(st.sampled_from(["default", "explicit", "explicit"]))
    if mode == "explicit":
        vals = []
        for s in range(n_sp):
            for i in range(n_cells):
                if draw(st.integers(0, 6)) == 0:
                    vals.append(fs(0))
                else:
                    vals.append(fs(draw(mantissa()) * F(10) ** draw(st.integers(*count_exp))))
        st_spec = {"values": vals,
                   "units": draw(st.sampled_from(["bare"] + (si.QUANTITY_SYMS if variety != "default" else ["molecule"])))}
    ch_spec = None
    if chemostats == "map" or (chemostats == "species" and draw(st.integers(0, 2)) == 0):
        ch_spec = [int(draw(st.integers(0, 2)) == 0) for _ in range(n_sp * n_cells)]
    return {"env": envs, "sys_units": sys_units, "net_units": net_units, "space": space,
            "species": species, "reactions": reactions, "state": st_spec, "chemostats": ch_spec}
