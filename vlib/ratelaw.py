"""Reference rate law, computed from the JSON spec only (SI floats: metre, second, molecule).

dx[s,i]/dt = sum_r (p_sr - q_sr) (kf_r(env_i) V_i prod_u (x[u,i]/V_i)^q_ur - kr_r(env_i) V_i prod_u (x[u,i]/V_i)^p_ur)
           + sum_{j ~ i} (k_ji x[s,j] - k_ij x[s,i]),      k_ij = D_ij S_ij / (d_ij V_i),
D_ij = (h_i + h_j) / (h_i/D_i + h_j/D_j) if both non-zero else 0,  h = V^(1/3).
Shares no code with strengths.
"""
from vlib.gen import pf, space_size


def env_lookup(v, env):
    """Per-environment value with comma-joined keys, 'default' fallback, then zero. -> float SI"""
    if isinstance(v, dict) and "si" in v and "form" in v:
        return float(pf(v["si"]))
    table = {}
    for k, q in v.items():
        for part in k.split(","):
            table[part.strip()] = float(pf(q["si"]))
    if env in table:
        return table[env]
    if "default" in table:
        return table["default"]
    return 0.0


def flag_lookup(ch, env):
    if isinstance(ch, dict):
        if env in ch:
            return int(bool(ch[env]))
        if "default" in ch:
            return int(bool(ch["default"]))
        return 0
    return int(bool(ch))


class Model:
    """Numeric view of a system spec."""

    def __init__(self, spec):
        sp = spec["space"]
        self.spec = spec
        self.n = space_size(sp)
        self.labels = [s["label"] for s in spec["species"]]
        self.ns = len(self.labels)
        envs = spec["env"]
        if sp["type"] == "grid":
            self.cell_env = list(sp["cell_env"])
            v = float(pf(sp["cell_vol"]["si"]))
            self.vol = [v] * self.n
        else:
            self.cell_env = [nd["env"] for nd in sp["nodes"]]
            self.vol = [float(pf(nd["vol"]["si"])) for nd in sp["nodes"]]
        self.env_label = [envs[e] for e in self.cell_env]
        self.h = [v ** (1.0 / 3.0) for v in self.vol]
        # neighbour slots: list of (i, j, S, d) directed i -> j (one entry per direction/edge end)
        self.slots = []
        if sp["type"] == "grid":
            w, hh, d = sp["w"], sp["h"], sp["d"]
            per = [sp["bc"].get(a, "reflecting") == "periodical" for a in "xyz"]
            dims = (w, hh, d)
            for i in range(self.n):
                c = [i % w, (i // w) % hh, i // (w * hh)]
                for ax in range(3):
                    for step in (1, -1):
                        cc = list(c)
                        cc[ax] += step
                        if per[ax]:
                            cc[ax] %= dims[ax]
                        if 0 <= cc[ax] < dims[ax]:
                            j = cc[0] + cc[1] * w + cc[2] * w * hh
                            self.slots.append((i, j, self.h[i] ** 2, self.h[i]))
        else:
            for e in sp["edges"]:
                S_ = float(pf(e["sfc"]["si"]))
                d_ = float(pf(e["dst"]["si"]))
                self.slots.append((e["i"], e["j"], S_, d_))
                self.slots.append((e["j"], e["i"], S_, d_))
        # diffusion constants per slot and species
        self.D = [[env_lookup(s["D"], self.env_label[i]) for i in range(self.n)] for s in spec["species"]]
        self.kslot = []  # [slot][species] -> k_ij (first order constant, source i)
        for (i, j, S_, d_) in self.slots:
            row = []
            for s in range(self.ns):
                Di, Dj = self.D[s][i], self.D[s][j]
                if Di != 0 and Dj != 0:
                    Dij = (self.h[i] + self.h[j]) / (self.h[i] / Di + self.h[j] / Dj)
                else:
                    Dij = 0.0
                row.append(Dij * S_ / (d_ * self.vol[i]))
            self.kslot.append(row)
        # reactions, split in irreversible channels
        self.channels = []  # (q vector, p vector, k per cell list, reaction index, direction)
        for ri, r in enumerate(spec["reactions"]):
            q = [r["sub"].get(l, 0) for l in self.labels]
            p = [r["prod"].get(l, 0) for l in self.labels]
            kf = [env_lookup(r["kf"], self.env_label[i]) for i in range(self.n)]
            kr = [env_lookup(r["kr"], self.env_label[i]) for i in range(self.n)]
            self.channels.append((q, p, kf, ri, "f"))
            self.channels.append((p, q, kr, ri, "r"))
        # default chemostat flags from species
        self.default_flags = [flag_lookup(s["chstt"], self.env_label[i])
                              for s in spec["species"] for i in range(self.n)]
        self.default_state = [env_lookup(s["density"], self.env_label[i]) * self.vol[i]
                              for s in spec["species"] for i in range(self.n)]

    def flags(self):
        if self.spec["chemostats"] is not None:
            return list(self.spec["chemostats"])
        return list(self.default_flags)

    def state(self):
        """state in molecules, species-major"""
        if self.spec["state"] is not None:
            return [float(pf(v)) for v in self.spec["state"]["values"]]
        return list(self.default_state)

    def rate(self, ch, i, x):
        q, p, k, _, _ = ch
        r = k[i] * self.vol[i]
        for u in range(self.ns):
            if q[u]:
                r *= (x[u * self.n + i] / self.vol[i]) ** q[u]
        return r

    def derivative(self, x, mask=None):
        """-> (dx, scale) lists (species-major); scale = sum of |terms| (tolerance base).
        mask: chemostat flags (entries with flag 1 get derivative 0)."""
        n, ns = self.n, self.ns
        dx = [0.0] * (n * ns)
        sc = [0.0] * (n * ns)
        for ch in self.channels:
            q, p = ch[0], ch[1]
            for i in range(n):
                r = self.rate(ch, i, x)
                if r == 0.0:
                    continue
                for s in range(ns):
                    c = p[s] - q[s]
                    if c:
                        dx[s * n + i] += c * r
                        sc[s * n + i] += abs(c * r)
        for (i, j, _, _), krow in zip(self.slots, self.kslot):
            if i == j:
                continue
            for s in range(ns):
                f = krow[s] * x[s * n + i]
                if f:
                    dx[s * n + i] -= f
                    dx[s * n + j] += f
                    sc[s * n + i] += abs(f)
                    sc[s * n + j] += abs(f)
        if mask is not None:
            for t in range(n * ns):
                if mask[t]:
                    dx[t] = 0.0
        return dx, sc

    # -- master-equation view (C07) ---------------------------------------------------------------
    def propensity(self, ch, i, x):
        q, _, k, _, _ = ch
        order = sum(q)
        a = k[i] * self.vol[i] ** (1 - order)
        for u in range(self.ns):
            xv = x[u * self.n + i]
            if xv < q[u]:
                return 0.0
            for m in range(q[u]):
                a *= (xv - m)
        return a


def tame_dt(model, flags=None, frac=0.02, x=None):
    """A power-of-ten time step (seconds) such that no entry changes by more than ~frac of max(|x|, 1) per
    step -- evaluated on the given state AND on the state with every entry raised to the largest amount
    present (so that a system that is nearly static now, but can become fast once products appear, does not
    get an absurdly large step). Used by generators only: a step that is too coarse for the kinetics makes
    fixed-step runs explode, which is a user error and not a valid script."""
    import math
    x = list(model.state() if x is None else x)
    top = max([abs(v) for v in x] + [1.0])
    best = None
    for xs in (x, [max(abs(v), top) for v in x]):
        dx, sc = model.derivative(xs, mask=flags)
        for xv, s_ in zip(xs, sc):
            if s_ > 0:
                r_ = max(abs(xv), 1.0) / s_
                best = r_ if best is None else min(best, r_)
    if best is None:
        return 1e-3
    return 10.0 ** math.floor(math.log10(best * frac))
