"""Common runner: facets, sharding, Hypothesis driving, replay files, evidence, exit codes.

A property module (props/cNN.py) defines
    PROPERTY = "CNN"
    RULE = "<how cases are generated and what makes one non-trivial>"
    ASSUMPTIONS = [...]
    FACETS = [Facet(...), ...]
    KNOWN_PROBES = {name: callable}           (optional; see known_findings.json)

Exit codes: 0 held (possibly KNOWN-FINDING lines), 1 VIOLATION, 2 harness error.
"""
import collections
import hashlib
import json
import os
import sys
import time
import traceback

VERIF = os.path.dirname(os.path.dirname(os.path.abspath(__file__)))


class Violation(Exception):
    """The code under test broke the property on the current case."""

    def __init__(self, msg, key=None):
        super().__init__(msg)
        self.key = key or "violation"


class HarnessError(Exception):
    pass


class Facet:
    """One executable statement of (a part of) a property.

    strategy : callable(ctx) -> hypothesis strategy producing JSON-serialisable specs  (or None)
    enumerate: callable(ctx) -> iterable of specs (finite, exhaustive part)            (or None)
    check    : callable(ctx, spec) -> None; raises Violation; must call ctx.note(...)
    examples : (quick, thorough) total number of generated cases over all shards
    shards   : (quick, thorough) number of worker tasks
    """

    def __init__(self, name, check, strategy=None, enumerate=None, examples=(200, 2000),
                 shards=(4, 16), shrink=True, setup=None, native=False, hang_is_violation=False):
        self.name = name
        self.check = check
        self.strategy = strategy
        self.enumerate = enumerate
        self.examples = examples
        self.shards = shards
        self.shrink = shrink
        self.setup = setup
        self.native = native                        # calls native code: keep a breadcrumb per case
        self.hang_is_violation = hang_is_violation  # absence of hang is part of the property


def canon_json(x):
    return json.dumps(x, sort_keys=True, separators=(",", ":"), ensure_ascii=True, default=str)


def digest(x):
    return hashlib.blake2b(canon_json(x).encode(), digest_size=8).hexdigest()


class Ctx:
    def __init__(self, prop, tier, seed, facet=None, shard=0, nshards=1):
        self.prop = prop
        self.tier = tier
        self.seed = seed
        self.facet = facet
        self.shard = shard
        self.nshards = nshards
        self.evaluations = 0
        self.nontrivial = set()
        self.classes = collections.Counter()
        self.samples = []
        self.sample_classes = set()
        self.excluded = collections.Counter()
        self.skipped = collections.Counter()
        self.extra = collections.Counter()
        self.last_spec = None

    # -- bookkeeping -------------------------------------------------------------------------
    def note(self, spec, nontrivial, classes=()):
        """Record one evaluated case. Call once per case from the facet's check function."""
        self.evaluations += 1
        for c in classes:
            self.classes[c] += 1
        if nontrivial:
            self.nontrivial.add(digest(spec))
            newc = [c for c in classes if c not in self.sample_classes]
            if len(self.samples) < 2 or (newc and len(self.samples) < 6):
                self.samples.append(spec)
                self.sample_classes.update(classes)

    def skip(self, why):
        self.skipped[why] += 1

    def exclude(self, why):
        self.excluded[why] += 1

    def count(self, what, n=1):
        self.extra[what] += n

    def result(self):
        return {
            "facet": self.facet, "shard": self.shard,
            "evaluations": self.evaluations,
            "nontrivial": sorted(self.nontrivial),
            "classes": dict(self.classes),
            "samples": self.samples,
            "excluded": dict(self.excluded),
            "skipped": dict(self.skipped),
            "extra": dict(self.extra),
        }


def sut_call(key, fn, *a, **kw):
    """Call the code under test where the oracle says the input is valid: any exception is a
    violation (not a harness error)."""
    try:
        return fn(*a, **kw)
    except Violation:
        raise
    except Exception as e:  # noqa: BLE001
        tb = traceback.extract_tb(e.__traceback__)
        where = ""
        for fr in reversed(tb):
            if "strengths" in fr.filename:
                where = " at %s:%d" % (os.path.basename(fr.filename), fr.lineno)
                break
        raise Violation("%s: unexpected %s: %s%s" % (key, type(e).__name__, str(e)[:300], where),
                        key=key.split("(")[0] + ":exception")


def must_raise(key, fn, *a, **kw):
    """Call the code under test where the oracle says the input is invalid."""
    try:
        r = fn(*a, **kw)
    except Violation:
        raise
    except Exception:  # noqa: BLE001
        return
    raise Violation("%s: expected an exception, got %r" % (key, _short(r)),
                    key=key.split("(")[0] + ":accepted")


def _short(x):
    s = repr(x)
    return s if len(s) < 200 else s[:200] + "..."


# ---------------------------------------------------------------------------------------------
# worker side


def _load(prop):
    import importlib
    return importlib.import_module("props." + prop.lower())


def _facet_seed(seed, facet, shard):
    h = hashlib.blake2b(("%d|%s|%d" % (seed, facet, shard)).encode(), digest_size=8).digest()
    return int.from_bytes(h, "big")


def run_task(prop, tier, seed, facet_name, shard, nshards, crumb=None):
    """Run one (facet, shard) task; returns a JSON-serialisable dict."""
    t0 = time.time()
    os.environ.setdefault("PYTHONHASHSEED", "0")
    out = {"facet": facet_name, "shard": shard, "violations": [], "harness_errors": []}
    ctx = Ctx(prop, tier, seed, facet_name, shard, nshards)
    try:
        mod = _load(prop)
        facet = [f for f in mod.FACETS if f.name == facet_name][0]
        if facet.setup:
            facet.setup(ctx)
        if crumb and (facet.setup is not None or facet.native):
            inner = facet.check

            def check_with_crumb(c, spec, _inner=inner):
                with open(crumb, "w") as f:
                    json.dump(spec, f, default=str)
                _inner(c, spec)
            facet.check = check_with_crumb
        ti = 0 if tier == "quick" else 1
        if facet.enumerate is not None:
            for idx, spec in enumerate(facet.enumerate(ctx)):
                if idx % nshards != shard:
                    continue
                ctx.last_spec = spec
                try:
                    facet.check(ctx, spec)
                except Violation as v:
                    out["violations"].append({"facet": facet_name, "spec": spec, "message": str(v),
                                              "key": v.key})
                    if len(out["violations"]) >= 3:
                        break
        if facet.strategy is not None:
            n = max(1, facet.examples[ti] // nshards)
            _run_hypothesis(ctx, facet, n, _facet_seed(seed, facet_name, shard), out)
    except HarnessError as e:
        out["harness_errors"].append("%s[%d]: %s" % (facet_name, shard, e))
    except Exception as e:  # noqa: BLE001
        out["harness_errors"].append("%s[%d]: %s: %s\n%s" % (
            facet_name, shard, type(e).__name__, e, traceback.format_exc()[-3000:]))
    out.update(ctx.result())
    out["wall_s"] = time.time() - t0
    return out


def _run_hypothesis(ctx, facet, n, hseed, out):
    import hypothesis
    from hypothesis import HealthCheck, Phase, given, settings

    phases = [Phase.generate, Phase.shrink] if facet.shrink else [Phase.generate]
    strat = facet.strategy(ctx)
    state = {"fail": None}

    @hypothesis.seed(hseed)
    @settings(max_examples=n, database=None, deadline=None, report_multiple_bugs=False,
              derandomize=False, suppress_health_check=list(HealthCheck), phases=phases,
              print_blob=False, verbosity=hypothesis.Verbosity.quiet)
    @given(strat)
    def test(spec):
        ctx.last_spec = spec
        try:
            facet.check(ctx, spec)
        except Violation as v:
            state["fail"] = {"facet": facet.name, "spec": spec, "message": str(v), "key": v.key}
            raise

    try:
        test()
    except Violation:
        out["violations"].append(state["fail"])
    except hypothesis.errors.Flaky as e:
        # The same case failed, then passed when executed again. Every oracle here is a pure function of the
        # case (seeds are part of it; time-outs are re-run alone before they count), so the code under test
        # answered differently for identical input: that is a violation in its own right (and exactly what a
        # determinism property such as C08 is about), reported with the case that failed first.
        if state["fail"] is not None:
            f = dict(state["fail"])
            f["message"] += " [not reproducible: the same case passed when executed again, i.e. the outcome is not a pure function of the input]"
            f["key"] = (f.get("key") or "violation") + ":flaky"
            out["violations"].append(f)
        else:
            out["harness_errors"].append("%s: flaky: %s" % (facet.name, str(e)[:500]))
    # any other exception propagates to run_task and is reported as a harness error


# ---------------------------------------------------------------------------------------------
# parent side


def _known_findings():
    p = os.path.join(VERIF, "known_findings.json")
    if not os.path.exists(p):
        return {"known": [], "fixed": []}
    with open(p) as f:
        return json.load(f)


def replay(prop, path):
    """Replay in a child process so that a crash of native code is reported, not suffered."""
    import subprocess
    args = json.dumps({"prop": prop, "replay": path})
    try:
        r = subprocess.run([sys.executable, "-W", "ignore", "-m", "vlib.task", args], cwd=VERIF,
                           timeout=float(os.environ.get("VERIF_REPLAY_TIMEOUT_S", "600")))
    except subprocess.TimeoutExpired:
        print("replay: the case did not return within the time limit (hang)")
        print("VIOLATION property=%s replay=%s" % (prop, path))
        return 1
    if r.returncode < 0:
        print("replay: process killed by signal %d while checking the case" % -r.returncode)
        print("VIOLATION property=%s replay=%s" % (prop, path))
        return 1
    return r.returncode


def replay_inproc(prop, path):
    mod = _load(prop)
    with open(path) as f:
        rec = json.load(f)
    facet = [f for f in mod.FACETS if f.name == rec["facet"]][0]
    ctx = Ctx(prop, "quick", 0, facet.name)
    if facet.setup:
        facet.setup(ctx)
    try:
        facet.check(ctx, rec["spec"])
    except Violation as v:
        print("replay: %s" % v)
        print("VIOLATION property=%s replay=%s" % (prop, path))
        return 1
    print("replay: case passes")
    return 0


def main(prop, tier, seed, only_facets=None):
    import concurrent.futures

    t0 = time.time()
    os.environ["PYTHONHASHSEED"] = "0"
    os.environ["VERIF_TIER"] = tier
    mod = _load(prop)
    ti = 0 if tier == "quick" else 1
    facets = [f for f in mod.FACETS if not only_facets or f.name in only_facets]

    violations, harness_errors, results = [], [], []

    # 1. committed regression corpus first (plain calls, no Hypothesis)
    rdir = os.path.join(VERIF, "replays", prop)
    n_replayed = 0
    if os.path.isdir(rdir) and not only_facets:
        for name in sorted(os.listdir(rdir)):
            if not name.endswith(".json"):
                continue
            with open(os.path.join(rdir, name)) as f:
                rec = json.load(f)
            fl = [f for f in mod.FACETS if f.name == rec["facet"]]
            if not fl:
                harness_errors.append("replay %s names unknown facet %s" % (name, rec["facet"]))
                continue
            ctx = Ctx(prop, tier, seed, fl[0].name)
            try:
                if fl[0].setup:
                    fl[0].setup(ctx)
                fl[0].check(ctx, rec["spec"])
                n_replayed += 1
            except Violation as v:
                violations.append({"facet": rec["facet"], "spec": rec["spec"], "message": str(v),
                                   "key": v.key, "from_replay": name})
            except Exception as e:  # noqa: BLE001
                harness_errors.append("replay %s: %s: %s" % (name, type(e).__name__, e))

    # 2. generated / enumerated search, sharded
    tasks = []
    for f in facets:
        ns = f.shards[ti]
        for s in range(ns):
            tasks.append((prop, tier, seed, f.name, s, ns))
    workers = min(16, max(1, len(tasks)), int(os.environ.get("VERIF_WORKERS", "16")))
    budget = float(os.environ.get("VERIF_BUDGET_S", "900" if tier == "quick" else "14400"))
    crash_violations = []
    if os.environ.get("VERIF_INPROC"):
        for t in tasks:
            results.append(run_task(*t))
    else:
        import shutil
        import subprocess
        import tempfile
        os.makedirs(os.path.join(VERIF, ".work"), exist_ok=True)
        wdir = tempfile.mkdtemp(prefix="run-%s-" % prop, dir=os.path.join(VERIF, ".work"))
        facet_by_name = {f.name: f for f in facets}

        def launch(t):
            _, _, _, fname, shard, ns = t
            base = os.path.join(wdir, "%s-%d" % (fname, shard))
            args = json.dumps({"prop": prop, "tier": tier, "seed": seed, "facet": fname, "shard": shard,
                               "nshards": ns, "out": base + ".json", "crumb": base + ".crumb"})
            t_start = time.time()
            try:
                pr = subprocess.run([sys.executable, "-W", "ignore", "-m", "vlib.task", args], cwd=VERIF,
                                    timeout=budget, capture_output=True, text=True)
                rc, err, timed_out = pr.returncode, pr.stderr[-1500:], False
            except subprocess.TimeoutExpired:
                rc, err, timed_out = None, "", True
            res = None
            if os.path.exists(base + ".json"):
                with open(base + ".json") as f:
                    res = json.load(f)
            crumb = None
            if os.path.exists(base + ".crumb"):
                try:
                    with open(base + ".crumb") as f:
                        crumb = json.load(f)
                except Exception:  # noqa: BLE001
                    crumb = None
            return t, rc, err, timed_out, res, crumb, time.time() - t_start

        with concurrent.futures.ThreadPoolExecutor(max_workers=workers) as ex:
            for t, rc, err, timed_out, res, crumb, wall in ex.map(launch, tasks):
                fname, shard = t[3], t[4]
                if res is not None:
                    results.append(res)
                    continue
                fobj = facet_by_name[fname]
                if timed_out:
                    if fobj.hang_is_violation and crumb is not None:
                        crash_violations.append({"facet": fname, "spec": crumb, "key": "hang",
                                                 "message": "the code under test did not return within %.0f s on this case" % budget})
                    else:
                        where = ""
                        if crumb is not None:     # keep the case that was running, for diagnosis
                            where = os.path.join(VERIF, ".work", "last-timeout-%s-%s-%d.json" % (prop, fname, shard))
                            with open(where, "w") as f:
                                json.dump({"property": prop, "facet": fname, "seed": seed, "spec": crumb}, f)
                            where = " (case in progress saved to %s)" % where
                        harness_errors.append("inconclusive: %s[%d] exceeded the %.0f s budget%s" % (fname, shard, budget, where))
                elif rc is not None and rc < 0 and crumb is not None:
                    crash_violations.append({"facet": fname, "spec": crumb, "key": "crash:signal%d" % -rc,
                                             "message": "process killed by signal %d while the code under test ran this case" % -rc})
                else:
                    harness_errors.append("task %s[%d] ended with status %r and no result: %s" % (fname, shard, rc, err))
        shutil.rmtree(wdir, ignore_errors=True)
    violations.extend(crash_violations)

    # 3. merge
    evaluations = 0
    nontrivial = set()
    classes = collections.Counter()
    excluded = collections.Counter()
    skipped = collections.Counter()
    extra = collections.Counter()
    per_facet = collections.OrderedDict()
    samples = []
    per_facet_samples = collections.Counter()
    for r in results:
        evaluations += r["evaluations"]
        nontrivial.update((r["facet"], d) for d in r["nontrivial"])
        classes.update(r["classes"])
        excluded.update(r["excluded"])
        skipped.update(r["skipped"])
        extra.update(r["extra"])
        pf = per_facet.setdefault(r["facet"], {"evaluations": 0, "nontrivial": set(), "wall_s": 0.0})
        pf["evaluations"] += r["evaluations"]
        pf["nontrivial"].update(r["nontrivial"])
        pf["wall_s"] = max(pf["wall_s"], r["wall_s"])
        for s in r["samples"]:
            if per_facet_samples[r["facet"]] < 2:
                samples.append({"facet": r["facet"], "case": s})
                per_facet_samples[r["facet"]] += 1
        violations.extend(r["violations"])
        harness_errors.extend(r["harness_errors"])
    for k, pf in per_facet.items():
        pf["distinct_nontrivial"] = len(pf.pop("nontrivial"))
        pf["wall_s"] = round(pf["wall_s"], 2)

    # 4. known findings: deterministic probes re-demonstrate each listed finding
    kf = _known_findings()
    known_lines = []
    known_matchers = []
    probes = getattr(mod, "KNOWN_PROBES", {})
    for entry in kf.get("known", []):
        if entry["property"] != prop:
            continue
        probe = probes.get(entry["probe"])
        if probe is None:
            harness_errors.append("known finding %s has no probe" % entry["probe"])
            continue
        try:
            still = probe()
        except Exception as e:  # noqa: BLE001
            harness_errors.append("probe %s: %s: %s" % (entry["probe"], type(e).__name__, e))
            continue
        if still:
            known_lines.append("KNOWN-FINDING: property=%s %s" % (prop, entry["what"]))
            known_matchers.append(entry)
        else:
            harness_errors.append(
                "known finding '%s' no longer reproduces: move it to 'fixed' in known_findings.json"
                % entry["probe"])

    matcher_fns = getattr(mod, "KNOWN_MATCHERS", {})
    new_violations = []
    n_known_hits = 0
    for v in violations:
        hit = False
        for entry in known_matchers:
            m = matcher_fns.get(entry.get("matcher", entry["probe"]))
            if m is not None and m(v):
                hit = True
                break
        if hit:
            n_known_hits += 1
        else:
            new_violations.append(v)

    # 5. replay files for new violations
    lines = []
    fdir = os.path.join(VERIF, "found", prop)
    seen_names = set()
    seen_keys = collections.Counter()
    for v in new_violations:
        os.makedirs(fdir, exist_ok=True)
        name = "%s-%s.json" % (v["facet"], digest(v["spec"]))
        if name in seen_names:
            continue
        seen_names.add(name)
        seen_keys[(v["facet"], v.get("key"))] += 1
        if seen_keys[(v["facet"], v.get("key"))] > 2:
            continue  # same oracle clause already reported twice in this run
        path = os.path.join(fdir, name)
        with open(path, "w") as f:
            json.dump({"property": prop, "facet": v["facet"], "key": v.get("key"),
                       "message": v["message"], "spec": v["spec"], "seed": seed, "tier": tier},
                      f, indent=1, sort_keys=True, default=str)
        lines.append((v, path))

    # 6. evidence
    wall = time.time() - t0
    exhaustive = bool(getattr(mod, "EXHAUSTIVE_PART", None))
    coverage = {
        "evaluations": int(evaluations + n_replayed),
        "distinct_nontrivial": len(nontrivial),
        "rule": mod.RULE,
        "samples": samples[:24] if samples else [],
        "classes": dict(sorted(classes.items())),
        "facets": per_facet,
        "excluded_known": dict(excluded),
        "skipped_trivial": dict(skipped),
        "counters": dict(extra),
        "regression_replays": n_replayed,
        "exhaustive": exhaustive,
    }
    if exhaustive:
        coverage["exhaustive_part"] = mod.EXHAUSTIVE_PART
    ev = {
        "property_id": prop, "tier": tier, "seed": int(seed), "level": getattr(mod, "LEVEL", "exploration"),
        "coverage": coverage,
        "assumptions": list(getattr(mod, "ASSUMPTIONS", [])),
        "wall_s": round(wall, 2),
        "violations": len(new_violations),
    }
    if known_lines:
        ev["known_findings_reported"] = known_lines
        ev["known_finding_hits"] = n_known_hits
    os.makedirs(os.path.join(VERIF, "evidence"), exist_ok=True)
    evdir = os.path.join(VERIF, "evidence")
    if os.path.abspath(os.environ.get("VERIF_REPO", "/repo")) != "/repo":
        evdir = os.path.join(VERIF, ".work", "evidence-other-tree")  # sensitivity runs
        os.makedirs(evdir, exist_ok=True)
    if not only_facets:
        tmp = os.path.join(evdir, prop + ".json.tmp")
        with open(tmp, "w") as f:
            json.dump(ev, f, indent=1, default=str)
        os.replace(tmp, os.path.join(evdir, prop + ".json"))

    # 7. report
    print("%s tier=%s seed=%d: %d cases (%d distinct non-trivial) in %.1fs; facets: %s" % (
        prop, tier, seed, coverage["evaluations"], coverage["distinct_nontrivial"], wall,
        ", ".join("%s=%d/%d" % (k, v["distinct_nontrivial"], v["evaluations"])
                  for k, v in per_facet.items())))
    for ln in known_lines:
        print(ln)
    for v, path in lines:
        print("  [%s] %s" % (v["facet"], v["message"][:600]))
        print("VIOLATION property=%s replay=%s" % (prop, path))
    if lines:
        return 1
    if harness_errors:
        for h in harness_errors[:10]:
            print("HARNESS-ERROR: %s" % h, file=sys.stderr)
        return 2
    if coverage["evaluations"] < 1 or (coverage["distinct_nontrivial"] < 2 and not only_facets):
        print("HARNESS-ERROR: generator produced no non-trivial cases", file=sys.stderr)
        return 2
    return 0
