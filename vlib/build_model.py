"""Turn JSON specs (vlib/gen.py) into strengths objects, through constructors or through the
dictionary readers.  The numbers handed to strengths are the spec's exact SI values re-expressed in
the unit that applies (owner's unit system for bare numbers, the quantity's own for explicit ones).
"""
from fractions import Fraction as F

from vlib import si
from vlib.gen import (DIM_D, DIM_DENS, DIM_LEN, DIM_QTY, DIM_SFC, DIM_TIME, DIM_VOL, dim_k, pf)
from vlib import sut  # noqa: F401
import strengths as S


def US(sysd):
    return S.UnitsSystem(space=sysd["space"], time=sysd["time"], quantity=sysd["quantity"])


def qv_obj(q, owner_sys, dim, route):
    x = pf(q["si"])
    if q["form"] == "bare":
        return float(x / si.scale(owner_sys, dim))
    val = float(x / si.scale(q["sys"], dim))
    ustr = si.unit_str(q["sys"], dim, q["style"])
    if q["form"] == "str" or route == "dict":
        return ("%r %s" % (val, ustr)).strip() if ustr else "%r" % val
    return S.UnitValue(val, ustr)


def is_qv(v):
    return isinstance(v, dict) and "si" in v and "form" in v


def envval_obj(v, owner_sys, dim, route):
    if is_qv(v):
        return qv_obj(v, owner_sys, dim, route)
    return {k: qv_obj(q, owner_sys, dim, route) for k, q in v.items()}


def units_entry(d, level):
    """Add the 'units' key of a dictionary level according to the spec's declaration mode."""
    m = level["mode"]
    if m == "explicit":
        d["units"] = dict(level["sys"])
    elif m == "inherit":
        d["units"] = "inherit"
    elif m == "default":
        d["units"] = "default"
    return d


def equation(sub, prod):
    def side(dd):
        return " + ".join(("%d %s" % (c, s)) if c != 1 else s for s, c in dd.items())
    return side(sub) + " -> " + side(prod)


# ---- dictionaries ------------------------------------------------------------------------------

def species_dict(sp):
    us = sp["units"]["sys"]
    d = {"label": sp["label"], "D": envval_obj(sp["D"], us, DIM_D, "dict"),
         "density": envval_obj(sp["density"], us, DIM_DENS, "dict"), "chstt": sp["chstt"]}
    return units_entry(d, sp["units"])


def reaction_dict(r):
    us = r["units"]["sys"]
    nf, nb = sum(r["sub"].values()), sum(r["prod"].values())
    d = {"stoichiometry": equation(r["sub"], r["prod"]) if r["eq_form"] == "str" else [dict(r["sub"]), dict(r["prod"])],
         "k+": envval_obj(r["kf"], us, dim_k(nf), "dict"),
         "k-": envval_obj(r["kr"], us, dim_k(nb), "dict")}
    if r.get("label") is not None:
        d["label"] = r["label"]
    return units_entry(d, r["units"])


def network_dict(spec):
    d = {"species": [species_dict(s) for s in spec["species"]],
         "reactions": [reaction_dict(r) for r in spec["reactions"]],
         "environments": list(spec["env"])}
    return units_entry(d, spec["net_units"])


def space_dict(sp):
    us = sp["units"]["sys"]
    if sp["type"] == "grid":
        d = {"type": "grid", "w": sp["w"], "h": sp["h"], "d": sp["d"],
             "cell_env": sp["cell_env"][0] if sp.get("cell_env_form") == "scalar" else list(sp["cell_env"]),
             "cell_volume": qv_obj(sp["cell_vol"], us, DIM_VOL, "dict"),
             "boundary_conditions": dict(sp["bc"])}
        return units_entry(d, sp["units"])
    nodes = []
    for n in sp["nodes"]:
        nodes.append(units_entry({"volume": qv_obj(n["vol"], n["units"]["sys"], DIM_VOL, "dict"),
                                  "environment": n["env"]}, n["units"]))
    edges = []
    for e in sp["edges"]:
        edges.append(units_entry({"nodes": [e["i"], e["j"]],
                                  "surface": qv_obj(e["sfc"], e["units"]["sys"], DIM_SFC, "dict"),
                                  "distance": qv_obj(e["dst"], e["units"]["sys"], DIM_LEN, "dict")}, e["units"]))
    return units_entry({"type": "graph", "nodes": nodes, "edges": edges}, sp["units"])


def state_values(spec):
    """explicit state -> (list of floats, unit symbol or None for bare)"""
    stt = spec["state"]
    qsym = spec["sys_units"]["sys"]["quantity"] if stt["units"] == "bare" else stt["units"]
    vals = [float(pf(v) / si.QUANTITY[qsym]) for v in stt["values"]]
    return vals, (None if stt["units"] == "bare" else stt["units"])


def system_dict(spec):
    d = {"network": network_dict(spec), "space": space_dict(spec["space"])}
    if spec["state"] is not None:
        vals, u = state_values(spec)
        d["state"] = vals if u is None else {"value": vals, "units": u}
    if spec["chemostats"] is not None:
        d["chemostats"] = list(spec["chemostats"])
    return units_entry(d, spec["sys_units"])


# ---- constructors ------------------------------------------------------------------------------

def build_species(sp):
    us = sp["units"]["sys"]
    return S.Species(sp["label"], D=envval_obj(sp["D"], us, DIM_D, "ctor"),
                     density=envval_obj(sp["density"], us, DIM_DENS, "ctor"),
                     chstt=sp["chstt"] if not isinstance(sp["chstt"], dict) else dict(sp["chstt"]),
                     units_system=US(us))


def build_reaction(r):
    us = r["units"]["sys"]
    nf, nb = sum(r["sub"].values()), sum(r["prod"].values())
    sto = equation(r["sub"], r["prod"]) if r["eq_form"] == "str" else [dict(r["sub"]), dict(r["prod"])]
    return S.Reaction(sto, kf=envval_obj(r["kf"], us, dim_k(nf), "ctor"),
                      kr=envval_obj(r["kr"], us, dim_k(nb), "ctor"), label=r.get("label"),
                      units_system=US(us))


def build_network(spec):
    return S.RDNetwork(species=[build_species(s) for s in spec["species"]],
                       reactions=[build_reaction(r) for r in spec["reactions"]],
                       environments=list(spec["env"]), units_system=US(spec["net_units"]["sys"]))


def build_space(sp):
    us = sp["units"]["sys"]
    if sp["type"] == "grid":
        return S.RDGridSpace(w=sp["w"], h=sp["h"], d=sp["d"],
                             cell_env=sp["cell_env"][0] if sp.get("cell_env_form") == "scalar" else list(sp["cell_env"]),
                             cell_vol=qv_obj(sp["cell_vol"], us, DIM_VOL, "ctor"),
                             boundary_conditions=dict(sp["bc"]), units_system=US(us))
    nodes = [S.RDGraphSpaceNode(volume=qv_obj(n["vol"], n["units"]["sys"], DIM_VOL, "ctor"),
                                environment=n["env"], units_system=US(n["units"]["sys"]))
             for n in sp["nodes"]]
    edges = [S.RDGraphSpaceEdge(e["i"], e["j"],
                                surface=qv_obj(e["sfc"], e["units"]["sys"], DIM_SFC, "ctor"),
                                distance=qv_obj(e["dst"], e["units"]["sys"], DIM_LEN, "ctor"),
                                units_system=US(e["units"]["sys"]))
             for e in sp["edges"]]
    return S.RDGraphSpace(nodes=nodes, edges=edges, units_system=US(us))


def build_system(spec, route="ctor"):
    if route == "dict":
        return S.rdsystem_from_dict(system_dict(spec))
    if route in ("file", "file-in-script"):
        # the system dictionary in a JSON file of its own; when the system declares its units explicitly, the declaration
        # is moved to the PARENT (argument of load_rdsystem / the 'units' of a script dictionary that names the file) and the
        # file inherits it: the same physical system
        import json
        import os
        import shutil
        import tempfile
        d = system_dict(spec)
        parent = None
        if isinstance(d.get("units"), dict):
            parent = d.pop("units")
        tmp = tempfile.mkdtemp(prefix="vsys-")
        try:
            path = os.path.join(tmp, "system.json")
            with open(path, "w", encoding="utf-8") as f:
                json.dump(d, f)
            if route == "file":
                if parent is None:
                    return S.load_rdsystem(path)
                return S.load_rdsystem(path, parent_units_system=US(parent))
            sd = {"system": path, "t_sample": [0]}
            if parent is not None:
                sd["units"] = dict(parent)
            return S.rdscript_from_dict(sd).system
        finally:
            shutil.rmtree(tmp, ignore_errors=True)
    kw = {}
    if spec["state"] is not None:
        vals, u = state_values(spec)
        kw["state"] = vals if u is None else S.UnitArray(vals, u)
    if spec["chemostats"] is not None:
        kw["chemostats"] = list(spec["chemostats"])
    return S.RDSystem(build_network(spec), build_space(spec["space"]),
                      units_system=US(spec["sys_units"]["sys"]), **kw)


# ---- time quantities for scripts ---------------------------------------------------------------

def time_obj(q, owner_sys, route="ctor"):
    return qv_obj(q, owner_sys, DIM_TIME, route)


# ---- scripts from specs (used by the child worker) ----------------------------------------------

def build_script(sc):
    """sc: {"sys": system spec, "route", "units": unit system dict, "t_sample": [floats, script units],
            "time_step", "t_max" (float or None), "policy", "interval", "seed", "mode"}"""
    system = build_system(sc["sys"], sc.get("route", "ctor"))
    kw = {}
    if sc.get("t_max") is not None:
        kw["t_max"] = sc["t_max"]
    route = sc.get("script_route", "ctor")
    mode = sc.get("mode", "auto")
    if not (route == "ctor-default" and mode == "auto"):       # "ctor-default": the default mode is not spelled out
        kw["init_state_processing"] = mode
    script = S.RDScript(system, list(sc["t_sample"]), time_step=sc.get("time_step", 1e-3),
                        sampling_policy=sc.get("policy", "on_t_sample"),
                        sampling_interval=sc.get("interval", 1.0), rng_seed=sc.get("seed"),
                        units_system=US(sc["units"]), **kw)
    if route in ("dict", "dict-default"):
        # through the dictionary reader; "dict-default": a dictionary that does not mention the (default) mode
        d = S.rdscript_to_dict(script)
        if route == "dict-default" and mode == "auto":
            d.pop("init_state_processing", None)
        script = S.rdscript_from_dict(d)
    return script
