"""Import the system under test from the working tree of $VERIF_REPO (default /repo)."""
import os
import sys
import warnings

REPO = os.environ.get("VERIF_REPO", "/repo")
_SRC = os.path.join(REPO, "src")

warnings.filterwarnings("ignore", category=SyntaxWarning)
if sys.path[0] != _SRC:
    sys.path.insert(0, _SRC)

import strengths  # noqa: E402

if not os.path.abspath(strengths.__file__).startswith(os.path.abspath(_SRC) + os.sep):
    raise RuntimeError("strengths imported from %s, expected under %s" % (strengths.__file__, _SRC))

_engine_patched = {}


def use_engine(kind="plain"):
    """Make the repository's own engine factories load a library freshly built from the tree."""
    from vlib import build
    import strengths.engine_collection as ec
    if kind not in _engine_patched:
        _engine_patched[kind] = build.engine_path(kind)
    path = _engine_patched[kind]
    ec._get_engine_path = lambda: path
    return path
