"""Three-valued reference parser for the documented unit / quantity text grammar.

documentation/using_quantities_with_units.rst:
    unit  := factor (('.' | '/') factor)*            ('' is the dimensionless unit)
    factor:= symbol [ ['-'] digits ]                 exponent: unsigned positive or negative integer
    quantity := number whitespace+ unit
Symbols: 11 space, 10 time, 10 quantity, 7 litre-family, 9 molar-family; 'u' may replace 'µ'.

Outcomes:  ("ACCEPT", dim, units, scale)   dim: kind->int ; units: kind->symbol for every kind that
                                            occurs ; scale: exact SI value of one such unit
           ("REJECT", cls)                  one of the malformed classes named by property C18
           ("UNSPEC", why)                  neither documented as valid nor listed as invalid: the
                                            checks assert nothing
Shares no code with strengths.
"""
import re
from fractions import Fraction as F

from vlib import si

SYMBOLS = {}
for _s in si.SPACE_SYMS:
    SYMBOLS[_s] = [("space", _s, 1)]
for _s in si.TIME_SYMS:
    SYMBOLS[_s] = [("time", _s, 1)]
for _s in si.QUANTITY_SYMS:
    SYMBOLS[_s] = [("quantity", _s, 1)]
for _s, _edge in si.LITRE.items():
    SYMBOLS[_s] = [("space", _edge, 3)]
for _s, (_q, _sp) in si.MOLAR.items():
    SYMBOLS[_s] = [("quantity", _q, 1), ("space", _sp, -3)]
assert len(SYMBOLS) == 47
U_SPELL = {"um": "µm", "us": "µs", "umol": "µmol", "uL": "µL", "uM": "µM"}
ALL_SPELLINGS = sorted(SYMBOLS) + sorted(U_SPELL)

_FACTOR = re.compile(r"^([A-Za-zµ]+)(-?[0-9]+)?$")
_NUMBER = re.compile(r"^[+-]?([0-9]+(\.[0-9]*)?|\.[0-9]+)([eE][+-]?[0-9]+)?$")


def parse_unit(s):
    if s == "":
        return ("ACCEPT", {k: 0 for k in si.KINDS}, {}, F(1))
    if s != s.strip():
        return ("UNSPEC", "surrounding blanks")
    if any(c.isspace() for c in s):
        return ("REJECT", "blank")
    parts = re.split(r"([./])", s)
    # parts = factor, sep, factor, sep, ...
    if parts[0] == "":
        return ("REJECT", "leading-separator")
    for p in parts[2:-1:2]:
        if p == "":
            return ("REJECT", "doubled-separator")
    if parts[-1] == "":
        return ("REJECT", "trailing-separator")
    dim = {k: 0 for k in si.KINDS}
    units = {}
    scale = F(1)
    unspec = None
    sign = 1
    for i in range(0, len(parts), 2):
        f = parts[i]
        if i > 0:
            sign = -1 if parts[i - 1] == "/" else 1
        m = _FACTOR.match(f)
        if not m:
            if re.match(r"^[A-Za-zµ]+\+[0-9]+$", f):
                return ("REJECT", "signed-positive-exponent")
            if re.match(r"^-?[0-9]+[A-Za-zµ]*$", f):
                return ("REJECT", "misplaced-exponent")
            unspec = unspec or "factor %r outside the documented alphabet" % f
            continue
        sym, ex = m.group(1), m.group(2)
        sym = U_SPELL.get(sym, sym)
        if sym not in SYMBOLS:
            return ("REJECT", "unknown-symbol")
        if ex is None:
            e = 1
        else:
            if not re.match(r"^-?[1-9][0-9]*$", ex):
                unspec = unspec or "exponent %r (zero or leading zeros)" % ex
                continue
            if len(ex) > 4:
                unspec = unspec or "exponent with more than three digits"
                continue
            e = int(ex)
        e *= sign
        for kind, base, mult in SYMBOLS[sym]:
            if kind in units and units[kind] != base:
                return ("REJECT", "kind-conflict")
            units[kind] = base
            dim[kind] += e * mult
            scale *= si.BASE[kind][base] ** (e * mult)
    if unspec:
        return ("UNSPEC", unspec)
    return ("ACCEPT", dim, units, scale)


def parse_quantity(s):
    """-> ("ACCEPT", float value, dim, units, scale) | ("REJECT", cls) | ("UNSPEC", why)"""
    if s != s.strip():
        return ("UNSPEC", "surrounding blanks")
    tok = s.split()
    if not tok:
        return ("UNSPEC", "empty")
    if not _NUMBER.match(tok[0]):
        if re.match(r"^[+-]?(inf|infinity|nan)$", tok[0], re.I) or "_" in tok[0]:
            return ("UNSPEC", "special float literal (inf / nan / digit-group underscores are read by Python's float())")
        if re.match(r"^[+-]?([0-9]+(\.[0-9]*)?|\.[0-9]+)([eE][+-]?[0-9]+)?[A-Za-zµ]", tok[0]):
            return ("REJECT", "value-glued-to-unit")
        if not tok[0].isascii():
            return ("UNSPEC", "non-ASCII characters in the value (Python's float() reads non-ASCII digits)")
        return ("REJECT", "non-numeric-value")
    if len(tok) > 2:
        return ("REJECT", "blank")
    r = parse_unit(tok[1]) if len(tok) == 2 else parse_unit("")
    if r[0] != "ACCEPT":
        return r
    return ("ACCEPT", float(tok[0])) + r[1:]
