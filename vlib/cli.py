import argparse
import os
import sys


def main():
    ap = argparse.ArgumentParser()
    ap.add_argument("prop")
    ap.add_argument("--tier", default=os.environ.get("VERIF_TIER", "quick"),
                    choices=["quick", "thorough"])
    ap.add_argument("--replay")
    ap.add_argument("--facet", action="append")
    a = ap.parse_args()
    seed = int(os.environ.get("VERIF_SEED", "1") or "1")
    from vlib import runner
    try:
        if a.replay:
            return runner.replay(a.prop.upper(), a.replay)
        return runner.main(a.prop.upper(), a.tier, seed, a.facet)
    except Exception as e:  # noqa: BLE001
        import traceback
        traceback.print_exc()
        print("HARNESS-ERROR: %s: %s" % (type(e).__name__, e), file=sys.stderr)
        return 2


if __name__ == "__main__":
    sys.exit(main())
