#!/usr/bin/env python3
"""CRLF-preserving exact replacement in a repository file.
usage: repo_edit.py <file> <old-file> <new-file> [expected-count]   (old/new given with LF endings)"""
import sys
path, oldf, newf = sys.argv[1:4]
cnt = int(sys.argv[4]) if len(sys.argv) > 4 else 1
data = open(path, 'rb').read()
crlf = b'\r\n' in data
old = open(oldf, 'rb').read()
new = open(newf, 'rb').read()
if crlf:
    old = old.replace(b'\r\n', b'\n').replace(b'\n', b'\r\n')
    new = new.replace(b'\r\n', b'\n').replace(b'\n', b'\r\n')
n = data.count(old)
if n != cnt:
    sys.exit("expected %d occurrence(s), found %d" % (cnt, n))
open(path, 'wb').write(data.replace(old, new))
print("edited", path, "x", n, "(CRLF)" if crlf else "(LF)")
