#!/usr/bin/env python3
"""Confirm a seeded change produced by a sub-agent and record it under /verif/seeded/<name>/.

usage: tools/seeded.py <worktree> <k> <name> [<check id> ...]
  1. scratch copy of /repo (HEAD working tree) under /tmp, engine built -> demo must PASS, suite 118 pass
  2. patch applied, engine rebuilt        -> suite still 118 pass, demo must FAIL
  3. each listed quick check is run against the patched copy (VERIF_REPO) -> detected or not
  4. /verif/seeded/<name>/{patch.diff,demo.py,meta.json} written; scratch copy removed
"""
import json
import os
import shutil
import subprocess
import sys
import tempfile

VERIF = os.path.dirname(os.path.dirname(os.path.abspath(__file__)))
PY = "/venv/bin/python"


def sh(cmd, cwd=None, env=None, timeout=3600):
    e = dict(os.environ)
    if env:
        e.update(env)
    r = subprocess.run(cmd, shell=True, cwd=cwd, env=e, capture_output=True, text=True, timeout=timeout)
    return r.returncode, (r.stdout + r.stderr)


def build_engine(tree):
    s = os.path.join(tree, "src/strengths/engines/strengths_engine")
    rc, out = sh("g++ -std=c++11 -O2 -fPIC -shared -I%s/src %s/src/engine.cpp -o %s/engine.cpython-312-x86_64-linux-gnu.so" % (s, s, s))
    if rc != 0:
        raise SystemExit("engine build failed:\n" + out[-2000:])


def suite(tree):
    rc, out = sh("%s -m pytest -q -p no:cacheprovider --timeout=900 tests 2>&1 | tail -3" % PY, cwd=tree,
                 env={"PYTHONPATH": os.path.join(tree, "src")})
    last = [l for l in out.strip().splitlines() if "passed" in l or "failed" in l]
    return last[-1] if last else out[-300:]


def demo(tree, path):
    rc, out = sh("%s -W ignore %s" % (PY, path), cwd=tree, env={"PYTHONPATH": os.path.join(tree, "src")}, timeout=1200)
    return rc, out.strip().splitlines()[-1][:300] if out.strip() else ""


def main():
    wt, k, name = sys.argv[1], sys.argv[2], sys.argv[3]
    checks = sys.argv[4:]
    sd = os.path.join(wt, "SEEDED")
    patch = os.path.join(sd, "patch%s.diff" % k)
    demo_py = os.path.join(sd, "demo%s.py" % k)
    meta = json.load(open(os.path.join(sd, "meta%s.json" % k)))
    tree = tempfile.mkdtemp(prefix="strn_seed_", dir="/tmp")
    try:
        sh("rsync -a --exclude .git --exclude '*.so' --exclude __pycache__ --exclude SEEDED /repo/ %s/" % tree)
        build_engine(tree)
        clean_suite = suite(tree)
        rc_clean, msg_clean = demo(tree, demo_py)
        rc, out = sh("patch -p1 -s < %s" % patch, cwd=tree)
        if rc != 0:
            raise SystemExit("patch does not apply: " + out)
        build_engine(tree)
        mut_suite = suite(tree)
        rc_mut, msg_mut = demo(tree, demo_py)
        ok = ("118 passed" in clean_suite and "118 passed" in mut_suite and rc_clean == 0 and rc_mut != 0)
        detected = {}
        for cid in checks:
            rc, out = sh("./check %s --tier quick" % cid, cwd=VERIF, env={"VERIF_REPO": tree}, timeout=3600)
            viol = [l for l in out.splitlines() if l.startswith("VIOLATION")]
            msgs = [l.strip() for l in out.splitlines() if l.startswith("  [")]
            detected[cid] = {"exit": rc, "violations": len(viol), "first": msgs[0][:400] if msgs else ""}
        out_dir = os.path.join(VERIF, "seeded", name)
        os.makedirs(out_dir, exist_ok=True)
        shutil.copy(patch, os.path.join(out_dir, "patch.diff"))
        shutil.copy(demo_py, os.path.join(out_dir, "demo.py"))
        meta_out = {
            "property": meta.get("property"), "files": meta.get("files"), "summary": meta.get("summary"),
            "needs": meta.get("needs"), "origin": "independent sub-agent given only the property text and a scratch worktree",
            "confirmed": {"suite_clean": clean_suite, "suite_with_change": mut_suite,
                          "demo_clean": [rc_clean, msg_clean], "demo_with_change": [rc_mut, msg_mut], "ok": ok},
            "ran": ["tools/seeded.py %s" % " ".join(sys.argv[1:])],
            "quick_checks_against_change": detected,
        }
        with open(os.path.join(out_dir, "meta.json"), "w") as f:
            json.dump(meta_out, f, indent=1)
        print(name, "confirmed" if ok else "NOT CONFIRMED", "|", clean_suite, "|", mut_suite, "| demo clean", rc_clean, "mut", rc_mut)
        for cid, d in detected.items():
            print("   ", cid, "exit", d["exit"], "violations", d["violations"], d["first"][:200])
    finally:
        shutil.rmtree(tree, ignore_errors=True)
        shutil.rmtree(os.path.join(VERIF, "found"), ignore_errors=True)


if __name__ == "__main__":
    main()
