#!/usr/bin/env python3
"""Regenerate /verif/MANIFEST.json from the table below (single source of truth)."""
import json
import os

VERIF = os.path.dirname(os.path.dirname(os.path.abspath(__file__)))

BASELINE_OFF = ("cd /repo && /venv/bin/python -m pytest -ra -q -p no:cacheprovider --timeout=900 "
                "--continue-on-collection-errors")

# id -> (technique, level text, level note)
CHECKS = {
    "C06": (
        "bounded-exhaustive enumeration + Hypothesis property test vs exact Fraction SI table",
        "Exploration. Every ordered pair of symbols of each base kind x exponents -6..6 and every "
        "litre/molar symbol is enumerated exhaustively against an independent exact rational SI table; "
        "full three-base conversions, round trips, composition, identity and refusal of other dimensions "
        "are searched with Hypothesis over unit-system triples x dimension vectors x target forms.",
        "Trusts vlib/si.py (SI table written from the SI definitions and the documentation's symbol "
        "table). Values restricted to 1e-6<=|v|<=1e6 so that no overflow occurs; tolerance 1e-12 relative "
        "as the property states."),
    "C05": (
        "Hypothesis expression-tree generation vs exact Fraction SI interpreter (differential oracle)",
        "Exploration. Random expression trees (depth <= 3) over UnitValue/UnitArray/number leaves in "
        "independent unit systems are evaluated by strengths and by an independent exact-rational "
        "interpreter with forward error bounds; outcomes must-raise / value+dimension+shape are compared; "
        "a second facet does the same for the six comparison operators.",
        "Trusts vlib/si.py and the interpreter in props/c05.py. Cases near a discontinuity of % or a "
        "comparison, outside 1e-250..1e250, or where a plain number meets an intermediate result whose "
        "storage system the property leaves open are skipped and counted."),
    "C18": (
        "bounded-exhaustive enumeration + Hypothesis grammar-based generation and mutation vs a "
        "three-valued reference grammar; print-parse round trip",
        "Exploration. One-factor strings are enumerated exhaustively (two-factor strings exhaustively in "
        "the thorough tier); 1-3 factor strings, quantity strings and single-mutation malformed strings "
        "are generated with Hypothesis and decided by an independent reference grammar (ACCEPT: same "
        "dimension, base units, SI scale; REJECT: must raise; UNSPEC: nothing asserted); print->parse "
        "round trip over all unit systems x exponents -9..9 x any finite double must be bit-identical. The "
        "thorough tier adds a coverage-guided Atheris campaign (fuzz/unit_text_fuzz.py, 2 x 1.5e6 executions) with "
        "the same oracle inside the target.",
        "Trusts vlib/unitgrammar.py (written from documentation/using_quantities_with_units.rst) and "
        "vlib/si.py. Text the documentation neither allows nor lists as wrong is not asserted."),
    "C01": (
        "Hypothesis model-based generation of whole systems; reference rate law computed from the spec; "
        "3-way differential (kinetics functions / make_dxdtf / one native Euler step)",
        "Exploration. Generated systems (networks x grid/graph spaces x states x a unit system per nesting "
        "level, via constructors or dictionary readers) are evaluated by the Python kinetics functions, by "
        "the exported ODE right-hand side and by one step of the freshly compiled Euler engine; every entry "
        "is compared with an independent reference law computed in SI from the spec, and the three are "
        "compared with each other; returned dimensions must be amount/time.",
        "Trusts vlib/ratelaw.py, vlib/si.py and the spec->object builder vlib/build_model.py. Tolerance 1e-9 "
        "x sum of |terms| per entry. No chemostats (C03). Engine library is rebuilt from /repo's working tree."),
    "C03": (
        "Hypothesis model-based generation with chemostat maps; masked reference rate law; invariant over "
        "every sample of engine trajectories; apply_reaction vs model array",
        "Exploration. Generated systems with flags by species (scalar / per-environment) or by explicit "
        "species x cell map: the kinetics functions and make_dxdtf must equal the masked reference law (and "
        "the unmasked one with apply_chemostats=False); in Euler / tau-leap / Gillespie runs sampled every "
        "iteration flagged entries must stay bit-identical to sample 0 and the first Euler step must equal "
        "the masked law; apply_reaction is compared with a model array; a constructed family checks that a "
        "flagged entry still feeds its product / neighbour.",
        "Trusts vlib/ratelaw.py, vlib/si.py, vlib/build_model.py. Stochastic runs use integer states with "
        "init_state_processing='none' and 5-60 iterations per case."),
    "C13": (
        "Hypothesis model-based generation; reference density x volume from the spec; model array for "
        "stateful accessor histories",
        "Exploration. Default state and chemostat map of generated systems (heterogeneous units at every "
        "level, per-environment densities/flags with fallbacks, grids and graphs) are compared entry by "
        "entry with reference values computed from the spec; every (species, cell) is read through every "
        "species/position form; short write histories (set_state / set_chemostat in any amount unit) are "
        "replayed on a model array with a full-array comparison after each write; regeneration after an "
        "edit is compared with the reference of the edited spec.",
        "Trusts vlib/ratelaw.Model (default_state/default_flags), vlib/si.py, vlib/build_model.py; bare "
        "numbers written with set_state are taken in the system's unit system (as the state setter does)."),
    "C04": (
        "Hypothesis metamorphic testing: one SI spec rendered in two unit descriptions (+ reference law); "
        "same script under two output unit systems",
        "Exploration. A physical system drawn in SI is rendered twice with independent unit declarations at "
        "every nesting level (explicit / inherit / default / omitted, all 1100 systems) and independent "
        "bare-vs-explicit forms for every dimensioned field, built through constructors or dictionary "
        "readers; initial state, chemostat map, rate of change and N Euler steps must agree in SI between the "
        "renderings and with the reference law; one script simulated under two output unit systems (all "
        "engines, three sampling policies) may differ only by the scale factor and must be expressed in the "
        "requested units.",
        "Trusts vlib/ratelaw.py, vlib/si.py, vlib/build_model.py. Requested sample times are kept mid-step so "
        "that unit rounding cannot move a sampling decision; Gillespie sample counts that differ under unit "
        "rounding of requested times are skipped and counted."),
    "C15": (
        "bounded-exhaustive enumeration (512 grids) + Hypothesis; reference geometry; 4-way neighbour "
        "agreement; grid-vs-graph differential",
        "Exploration, exhaustive on all grids with w,h,d in 1..4 x 8 boundary combinations: index/coordinate "
        "bijection in five position forms, rejection of every out-of-grid index in [-2n,3n] and of coordinate "
        "triples with one component out of range, get_neighbors / are_neighbors for every ordered pair "
        "against reference geometry, and the native engine's neighbour multiset revealed by one "
        "pure-diffusion Euler step from a one-hot state at every cell. Hypothesis adds larger shapes, the "
        "kinetics functions' neighbour relation, and grid_to_graph structure plus Euler-trajectory and "
        "rate-law equality between a grid system and its graph.",
        "Trusts the reference geometry in props/c15.py and vlib/ratelaw.py. get_neighbors is compared as a "
        "set of distinct cells (multiplicities are checked physically through engine and kinetics). "
        "Python kinetics on the graph only without periodic axes of length 2 (stated restriction)."),
    "C17": (
        "Hypothesis generation of trajectories from known arrays; direct-indexing oracle and exact "
        "reference look-up",
        "Exploration. Trajectories are constructed directly from arrays whose entries encode (sample, "
        "species, cell); every triple is read through every accessor and compared with direct indexing "
        "(and units); get_sample_index is compared with a reference look-up evaluated in Fractions for "
        "query times before / on / between / exactly mid-way / after the samples, in the trajectory's unit "
        "or another one, as UnitValue, string or number; the accessor identities are re-checked on "
        "trajectories produced by the three engines.",
        "Sample times strictly increasing. Queries converted from another unit are kept 1e-9 away from "
        "samples and mid-points (skipped and counted otherwise)."),
    "C19": (
        "Hypothesis grammar-based generation of reaction equations and constants; oracle computed from the "
        "generating spec; must-raise with accepted fault-free twin",
        "Exploration. Equations are rendered from a stoichiometry spec (arbitrary label alphabet, "
        "coefficients 0..9, repeats, empty sides, arbitrary blanks) or passed as two dicts; "
        "ssto/psto/dsto/order/rorder/substrates/products and the print-parse round trip are compared with "
        "the summed coefficients of the spec; constants of orders 0..8 in all unit systems are compared in SI "
        "and any other dimension must raise; split() and K are compared per environment; invalid networks "
        "must raise while their valid twin is accepted. The thorough tier adds an Atheris campaign "
        "(fuzz/equation_fuzz.py, 2 x 1.5e6 executions) comparing Reaction(text) with a three-valued reference parser.",
        "Labels are drawn without Unicode white space, '+' and '->'. K facet restricted to mild unit systems "
        "and orders <= 4 (float conversion factors stay finite)."),
    "C20": (
        "fault injection into generated valid models (Hypothesis) + bounded-exhaustive enumeration of "
        "out-of-space positions; must-raise oracle with accepted fault-free twin and unchanged-state check",
        "Fault enumeration by generation. A valid random model is rendered as the script dictionary and "
        "exactly one fault of an 18-entry catalogue (each entry a clause of the statement) is injected at a "
        "random nesting level: the reader must raise while the fault-free twin is accepted; the same classes "
        "are driven through constructors and setters (refused setters must leave the object unchanged); "
        "every out-of-range linear index in [-2n,3n] and coordinate triple on all grids up to 3x3x3 and path "
        "graphs up to 6 nodes goes through every accessor that takes a position (spaces, system, "
        "apply_reaction, kinetics, trajectory) with the system state compared afterwards; unknown species "
        "(accessors and networks: undeclared reactants / products, duplicate labels), array fields with one "
        "element of another dimension, and invalid coarse-graining maps (valid map + one broken rule) likewise.",
        "Any exception type counts as rejection. The catalogue lists only inputs the statement, the "
        "documentation or the code's own checks declare invalid."),
    "C16": (
        "Hypothesis generation of valid index maps by construction; brute-force aggregation oracle on the "
        "fine grid; inverse and identity-map differential",
        "Exploration. Valid maps (non-contiguous groups, single-cell groups, dropped cells of several "
        "environments, random relabelling) on 1-D/2-D/3-D reflecting grids are accepted and the coarse system "
        "is compared with a brute-force aggregation of the fine grid (volumes, environments, amounts, flags "
        "= OR, edge set, face counts, centroid distances, no self-loop / duplicate, totals, input untouched); "
        "uncoarsegrain_trajectory is compared with value/len(group) spreading; simulate(cgmap=identity) is "
        "compared with the plain Euler run and sample 0 of simulate(cgmap=m) with aggregation spread back.",
        "Reflecting grids only (documented precondition). Maps whose connected groups share a centroid give "
        "a zero distance and non-finite trajectories; only sample 0 is meaningful there."),
    "C12": (
        "Hypothesis round-trip testing over four routes (dict, JSON text, save/load files, hand-assembled "
        "multi-file layouts) with a canonical-content oracle; alias and default metamorphic relations",
        "Exploration. Networks, grid and graph spaces, systems, scripts and trajectories built by constructors "
        "from generated specs are serialised and read back through every route and compared by canonical "
        "physical content (SI values rtol 1e-12, labels, stoichiometry, geometry, unit system at every level, "
        "sampling parameters, processing mode, seed, t, data); re-serialising must give the same dictionary; "
        "renaming keys to any accepted alias and omitting keys with documented defaults must give the same "
        "object as the primary / explicit form.",
        "Trusts vlib/canon.py (reads public attributes only) and vlib/si.py. Scratch files live under "
        "/verif/.work with the process cwd elsewhere."),
    "C09": (
        "Hypothesis generation of scripts and driving histories (iterate / explicit sample calls); "
        "executable reference model of sampling and termination; differential against an on_iteration run",
        "Exploration. For generated scripts (three engines, both space types, four policies, structured "
        "requested-time lists, t_max explicit/default, interleaved explicit sample() calls) a reference model "
        "reproducing the engine's double arithmetic predicts which iterations are recorded, the recorded times "
        "bit for bit, every iterate() return value, is_complete() and get_progress(); recorded states must be "
        "bit-identical to the state after that iteration in an on_iteration run of the same script and seed; "
        "shapes and the t=0 record are checked; a second facet varies the unit of every time quantity.",
        "Time quantities of the exact facet are bare numbers in the script's unit system (identity "
        "conversion); in the unit-variation facet requested times sit >= 1/32 step from step times. Time step "
        "chosen from the reference law so that Euler / tau-leap stay finite."),
    "C14": (
        "Hypothesis generation of real-valued states x modes x engines x seeds, executed in a sandboxed "
        "child process with a hang bound; validity predicate on the first sample; Poisson z-tests over seeds",
        "Exploration. For generated states (sub-molecule totals, fractional and integer values, entries above "
        "the Poisson/normal switch, empty cells, 1-4 species, 1-30 cells, grid and graph) the first sample "
        "after set-up is checked: non-negative integers, per-species total = floor of the real total, nothing "
        "in empty cells, pass-through bit for bit in 'none' mode (and 'auto' for Euler), identical result for "
        "the same seed, and return within a hang bound (child process, re-run alone before a time-out "
        "counts). Poisson mode is decided statistically over 200 (thorough: 2000) generated seeds per case: "
        "per-entry mean, pooled dispersion, pooled correlation, zero stays zero.",
        "Hang bound 30 s then 90 s alone (set-ups take milliseconds). |z| < 7 thresholds; runs are pure "
        "functions of generated seeds."),
    "C02": (
        "Hypothesis generation of mass-balanced networks; invariant over every sample of every engine's "
        "trajectory; own integer null-space oracle",
        "Exploration. Networks are mass-balanced by construction so that non-trivial conservation laws exist; "
        "an integer basis of the left null space of the stoichiometric matrix (restricted to species without "
        "chemostated entries) is computed independently, and for Euler / tau-leap / Gillespie runs sampled at "
        "every iteration each conserved combination must keep its sample-0 value: exactly for the stochastic "
        "engines, within 1e-9 of the magnitude for Euler; a pure-diffusion facet checks every species' total "
        "on grids with all boundary mixes and on (multi)graphs with heterogeneous volumes; a third facet places a "
        "chemostated species between two reacting unflagged ones (species order) by construction.",
        "20-400 iterations per run; stochastic runs receive exact integer molecule numbers (redistribution "
        "mode, or 'none' with a state given in molecules)."),
    "C10": (
        "bounded-exhaustive enumeration of lifecycle call histories (length <= 5) + Hypothesis stateful "
        "histories over two engine objects, executed in a sandboxed child process; lifecycle reference model "
        "and solo-replay differential",
        "Exploration, exhaustive on all grammar-respecting call sequences of length <= 5 over 10 concrete calls "
        "on one engine: each is executed in a child process and compared call by call with a lifecycle "
        "reference model (returns, sticky completion, records, progress, outputs bit-identical to the "
        "clean-room trajectory, repeated output, multiple finalize, clean slate after re-setup); fixed-step runs "
        "(both engines, both space types, t_max = 0 / multiples / non-multiples / default) must report completion "
        "exactly at the first step beyond t_max; random "
        "histories up to 40 calls over two engine objects of any kind (incl. sub-molecule and empty states, "
        "run-to-completion loops) must return within a hang bound, must not crash, and every object must "
        "return what it returns when driven alone in a fresh process.",
        "Hang bound 30-60 s then re-run alone with 90-180 s. Known finding D14 (objects share one native "
        "simulation) is re-demonstrated by a deterministic probe and reported as KNOWN-FINDING; histories "
        "that operate an object after another one was set up are not generated."),
    "C11": (
        "Hypothesis scripts x lifecycle histories executed on an ASan+UBSan+_GLIBCXX_ASSERTIONS build of the "
        "engine (child process, normal Python API) with plain-vs-sanitized differential; thorough tier: "
        "coverage-guided libFuzzer campaign on the C entry points",
        "Exploration. The engine sources of the working tree are compiled with AddressSanitizer, UBSan and "
        "hardened libstdc++ and driven through the normal Python API by generated scripts (degenerate grids, "
        "periodic axes of length 1/2, multigraphs with self-loops / parallel edges / isolated nodes, exhausted "
        "sample lists, all modes and policies, empty cells) and lifecycle histories; any sanitizer report, "
        "library assertion or fatal signal is a violation and the plain build must return the same values. "
        "The thorough tier runs libFuzzer (fuzz/engine_fuzz.cpp, 2 x 4e5 executions, seeded and empty corpus) "
        "on valid C-level arguments and call sequences.",
        "Sanitizers see executed paths only and do not detect reads of uninitialised values. Scripts are "
        "kept numerically tame (time step chosen from the reference law; fuzz stoichiometry conserves "
        "molecule numbers) because exploding tau-leap populations are a user error, not a valid script."),
    "C08": (
        "Hypothesis generation of driving schedules and process histories; bit-level differential against "
        "a clean-room run in a fresh child process; stored-script replay; seed metamorphic relations",
        "Exploration. For generated scripts and seeds the trajectory obtained in a fresh process by set-up + "
        "run-to-completion is the reference; executions after 0-4 earlier simulations (other scripts, engine "
        "kinds, space types; completed or abandoned; finalized or not; same or another engine object), under "
        "random schedules of iterate / iterate_n(k) / run(0|1|5 ms) slices, repeated up to three times, must be "
        "bit-identical in times and data. simulate(rng_seed=None) followed by simulate_script(out.script) and "
        "by simulate(rng_seed=stored seed) must reproduce the run; Euler must not depend on the seed; "
        "stochastic runs with >= 50 events must differ between seeds.",
        "run(ms) slice boundaries are sampled under load, not controlled. Euler seed-independence is asserted "
        "for the pass-through processing modes only (an explicitly requested random resampling of the "
        "initial state is seeded by design)."),
    "C07": (
        "Hypothesis generation of stochastic runs sampled at every iteration; per-step legality against "
        "reference propensities; martingale z-tests (waiting times, event-class frequencies, tau-leap "
        "increments, combinatorial factors)",
        "Exploration. Every step of generated Gillespie trajectories (orders 0..3, repeated reactants, "
        "per-environment constants incl. zeros, all boundary mixes incl. periodic axes of length 1/2, "
        "multigraphs, chemostat maps) must be the chemostat-masked effect of one channel whose independently "
        "computed propensity is positive, with non-negative integer states, strictly increasing time and "
        "termination exactly at zero total propensity; rates are decided statistically: sum a0 dt against "
        "Gamma(N,1), per-class event counts against their martingale variance, tau-leap increments of linear "
        "functionals for mean and Poisson dispersion (also on pure-diffusion systems with chemostat maps), and a "
        "dedicated family at n..n+6 molecules where the falling-factorial factor dominates (150 seeds per case). "
        "The script / output unit system is drawn at random; the reference stays in molecules and seconds.",
        "|z| < 7 per test; runs are pure functions of generated seeds. The rate facets use mass-balanced "
        "networks without chemostats so that fixed-step runs stay bounded; runs with active null channels "
        "are excluded from the rate statistics. Deviations below ~7/sqrt(N) are below the tests' power."),
}

NOT_BUILT = "check not built yet in this working session (planned; DESIGN.md section 4)"


# additions to the level text made after the CHECKS table was written (seeded round 4): histories / secondary entry points
EXTRA = {
    "C01": " The exported right-hand side is called repeatedly on the same function object at several states. Uniform-amount states on heterogeneous volumes.",
    "C02": " Script unit systems are drawn, and engine objects are re-used after a run on another network. Coarse Euler steps that overshoot below zero (facet coarse_steps).",
    "C03": " apply_reaction is called again after an in-place edit of one flag; whole-cell reservoirs as diffusion sources.",
    "C04": " make_dxdtf on one-cell systems is asked in two drawn unit systems on both renderings. System files with the units declared by the parent; extreme unit systems (facet output_units_extreme).",
    "C06": " Unit-system objects re-assigned through their setters after having served in a conversion are covered by facet 'reassigned'. Unit strings with a base spread over several factors.",
    "C07": " Facet birth_death covers zero-order production into empty cells (both engines, both space types). Waiting times conditional on the event class (independence of waiting time and event choice).",
    "C09": " One script in three is edited into its final form through the RDScript setters after having been read.",
    "C11": " The result buffers allocated by the Python glue are ASan-tracked (PYTHONMALLOC=malloc); histories include output ; sample ; output.",
    "C13": " Volumes edited through the space's setters before regeneration.",
    "C15": " The tau-leap and Gillespie algorithms are walked over the neighbour table too; the relation is re-checked on the same grid object after set_boundary_conditions.",
    "C16": " simulate(cgmap=...) is run with every engine and initial-state processing mode (first sample obeys the mode; identity map = plain run).",
    "C17": " A second lookup (same number, other unit) and a repeat of the first are made on the same trajectory object. Queries a hair's breadth next to a sample time.",
    "C18": " Texts are parsed again after the caller modified earlier results. All ASCII blanks, also directly after an exponent.",
    "C20": " Two non-reference aliases of a field together.",
    "C08": " Coarse-grained runs repeated with the same seed (facet coarse_grained).",
    "C10": " Completed runs are continued (iterate_n(0), iterate_n(2), iterate) and must stay completed with unchanged output; simulate_script with and without the progress display.",
    "C12": " Trajectories whose system differs from their script's.",
    "C14": " Scripts from constructor and dictionary with the default mode left out; pooled Poisson mean above the 100-molecule switch (facet poisson_large).",
    "C19": " UnitValue objects inside per-environment dictionaries; very small / large constants; constants re-assigned after K was read.",
}


def main():
    props = [json.loads(l) for l in open(os.path.join(VERIF, "properties.jsonl"))]
    checks, na = [], []
    for p in props:
        pid = p["id"]
        if pid in CHECKS and os.path.exists(os.path.join(VERIF, "props", pid.lower() + ".py")):
            tech, text, note = CHECKS[pid]
            text = text + EXTRA.get(pid, "")
            checks.append({
                "property_id": pid,
                "quick_cmd": "./check %s --tier quick" % pid,
                "thorough_cmd": "./check %s --tier thorough" % pid,
                "evidence_file": "/verif/evidence/%s.json" % pid,
                "replay_cmd_template": "./check %s --replay {path}" % pid,
                "level_claimed": {"category": "fault_enumeration" if pid == "C20" else "exploration", "text": text,
                                  "design_ref": "DESIGN.md section 4, %s" % pid},
                "level_note": note,
                "technique": tech,
            })
        else:
            na.append({"property_id": pid, "reason": NOT_BUILT})
    m = {
        "version": 1,
        "setup_cmd": "./setup.sh",
        "hooks": {
            "guard": "STRENGTHS_VERIF",
            "enable": "none needed: every observation point is public API; no hook commit exists in /repo",
            "baseline_off_cmd": BASELINE_OFF,
            "source_commits": [],
            "add_only": True,
        },
        "engines": [
            {"name": "atheris", "path": "/verif/.deps (atheris 3.1, installed by setup.sh) + /verif/fuzz/*.py",
             "serves_properties": ["C18", "C19"],
             "kind_free_text": "coverage-guided fuzzing of the Python text parsers, reference oracle inside the target (thorough tier)"},
            {"name": "libfuzzer", "path": "/verif/fuzz/engine_fuzz.cpp (clang++-14 -fsanitize=fuzzer,address,undefined)",
             "serves_properties": ["C11"],
             "kind_free_text": "coverage-guided fuzzing of the engine's C entry points with valid decoded arguments (thorough tier)"},
            {"name": "hypothesis", "path": "/venv (hypothesis 6.168)",
             "serves_properties": [c["property_id"] for c in checks],
             "kind_free_text": "property-based testing (Hypothesis strategies, seeded by VERIF_SEED) and "
                               "bounded-exhaustive enumeration, run by /verif/vlib/runner.py"},
        ],
        "checks": checks,
        "not_applicable": na,
        "notes": "All checks: ./check <ID> --tier quick|thorough ; replay: ./check <ID> --replay <file>. "
                 "VERIF_SEED selects the Hypothesis seed; VERIF_REPO (default /repo) the tree under test. "
                 "Exit 0 held / 1 VIOLATION / 2 harness error. New violations are written to "
                 "/verif/found/<ID>/, the committed regression corpus lives in /verif/replays/<ID>/.",
    }
    with open(os.path.join(VERIF, "MANIFEST.json"), "w") as f:
        json.dump(m, f, indent=1)
    print("MANIFEST: %d checks, %d not_applicable" % (len(checks), len(na)))


if __name__ == "__main__":
    main()
