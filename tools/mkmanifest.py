#!/usr/bin/env python3
"""Regenerate /verif/MANIFEST.json from the table below (single source of truth)."""
import json
import os

VERIF = os.path.dirname(os.path.dirname(os.path.abspath(__file__)))

BASELINE_OFF = ("cd /repo && /venv/bin/python -m pytest -ra -q -p no:cacheprovider --timeout=900 "
                "--continue-on-collection-errors")

# id -> (technique, level text, level note)
CHECKS = {
    "C06": (
        "bounded-exhaustive enumeration + Hypothesis property test vs exact Fraction SI table",
        "Exploration. Every ordered pair of symbols of each base kind x exponents -6..6 and every "
        "litre/molar symbol is enumerated exhaustively against an independent exact rational SI table; "
        "full three-base conversions, round trips, composition, identity and refusal of other dimensions "
        "are searched with Hypothesis over unit-system triples x dimension vectors x target forms.",
        "Trusts vlib/si.py (SI table written from the SI definitions and the documentation's symbol "
        "table). Values restricted to 1e-6<=|v|<=1e6 so that no overflow occurs; tolerance 1e-12 relative "
        "as the property states."),
}

NOT_BUILT = "check not built yet in this working session (planned; DESIGN.md section 4)"


def main():
    props = [json.loads(l) for l in open(os.path.join(VERIF, "properties.jsonl"))]
    checks, na = [], []
    for p in props:
        pid = p["id"]
        if pid in CHECKS and os.path.exists(os.path.join(VERIF, "props", pid.lower() + ".py")):
            tech, text, note = CHECKS[pid]
            checks.append({
                "property_id": pid,
                "quick_cmd": "./check %s --tier quick" % pid,
                "thorough_cmd": "./check %s --tier thorough" % pid,
                "evidence_file": "/verif/evidence/%s.json" % pid,
                "replay_cmd_template": "./check %s --replay {path}" % pid,
                "level_claimed": {"category": "exploration", "text": text,
                                  "design_ref": "DESIGN.md section 4, %s" % pid},
                "level_note": note,
                "technique": tech,
            })
        else:
            na.append({"property_id": pid, "reason": NOT_BUILT})
    m = {
        "version": 1,
        "setup_cmd": "./setup.sh",
        "hooks": {
            "guard": "STRENGTHS_VERIF",
            "enable": "none needed: every observation point is public API; no hook commit exists in /repo",
            "baseline_off_cmd": BASELINE_OFF,
            "source_commits": [],
            "add_only": True,
        },
        "engines": [
            {"name": "hypothesis", "path": "/venv (hypothesis 6.168)",
             "serves_properties": [c["property_id"] for c in checks],
             "kind_free_text": "property-based testing (Hypothesis strategies, seeded by VERIF_SEED) and "
                               "bounded-exhaustive enumeration, run by /verif/vlib/runner.py"},
        ],
        "checks": checks,
        "not_applicable": na,
        "notes": "All checks: ./check <ID> --tier quick|thorough ; replay: ./check <ID> --replay <file>. "
                 "VERIF_SEED selects the Hypothesis seed; VERIF_REPO (default /repo) the tree under test. "
                 "Exit 0 held / 1 VIOLATION / 2 harness error. New violations are written to "
                 "/verif/found/<ID>/, the committed regression corpus lives in /verif/replays/<ID>/.",
    }
    with open(os.path.join(VERIF, "MANIFEST.json"), "w") as f:
        json.dump(m, f, indent=1)
    print("MANIFEST: %d checks, %d not_applicable" % (len(checks), len(na)))


if __name__ == "__main__":
    main()
