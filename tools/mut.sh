#!/bin/sh
# usage: tools/mut.sh <ID> <patch-file | sed-expr:file> [extra check args]
# Runs the quick check of <ID> against a scratch copy of /repo with one mutation applied; removes the copy.
ID=$1; MUT=$2; shift 2
D=$(mktemp -d /tmp/strn_mut_XXXXXX)
rsync -a --exclude .git --exclude '*.so' --exclude '__pycache__' /repo/ "$D/"
if [ -f "$MUT" ]; then
  (cd "$D" && patch -p1 -s < "$MUT") || { echo "patch failed"; rm -rf "$D"; exit 3; }
else
  EXPR=${MUT%%@@@*}; FILE=${MUT##*@@@}
  cp "$D/$FILE" "$D/$FILE.orig"
  sed -i "$EXPR" "$D/$FILE"
  if cmp -s "$D/$FILE" "$D/$FILE.orig"; then echo "mutation did not change $FILE"; rm -rf "$D"; exit 3; fi
  rm "$D/$FILE.orig"
fi
cd /verif
VERIF_REPO="$D" VERIF_NOEVIDENCE=1 ./check "$ID" --tier quick "$@" | tail -8
RC=$?
rm -rf "$D"
exit $RC
