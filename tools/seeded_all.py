#!/usr/bin/env python3
"""Re-run every confirmed seeded change (seeded/<name>/patch.diff) against the property's current quick check.
usage: tools/seeded_all.py [--record] [names...]   -> prints one line per change; exit 1 if any is not detected."""
import json
import os
import shutil
import subprocess
import sys
import tempfile

VERIF = os.path.dirname(os.path.dirname(os.path.abspath(__file__)))


def main():
    args = sys.argv[1:]
    record = "--record" in args          # write the result into meta.json (the first recorded result is kept as 'first_result')
    args = [a for a in args if a != "--record"]
    names = args or sorted(os.listdir(os.path.join(VERIF, "seeded")))
    missed = []
    for name in names:
        d = os.path.join(VERIF, "seeded", name)
        meta = json.load(open(os.path.join(d, "meta.json")))
        prop = meta["property"]
        tree = tempfile.mkdtemp(prefix="strn_seed_", dir="/tmp")
        try:
            subprocess.run("rsync -a --exclude .git --exclude '*.so' --exclude __pycache__ /repo/ %s/" % tree, shell=True, check=True)
            r = subprocess.run("patch -p1 -s < %s" % os.path.join(d, "patch.diff"), shell=True, cwd=tree, capture_output=True, text=True)
            if r.returncode != 0:
                print(name, "PATCH DOES NOT APPLY", r.stdout[-200:])
                missed.append(name)
                continue
            env = dict(os.environ, VERIF_REPO=tree)
            r = subprocess.run(["./check", prop, "--tier", "quick"], cwd=VERIF, env=env, capture_output=True, text=True, timeout=7200)
            nv = sum(1 for l in r.stdout.splitlines() if l.startswith("VIOLATION"))
            first = [l.strip() for l in r.stdout.splitlines() if l.startswith("  [")]
            print(name, "detected" if r.returncode == 1 and nv else "NOT DETECTED (exit %d)" % r.returncode, nv, (first[0][:160] if first else ""), flush=True)
            if not (r.returncode == 1 and nv):
                missed.append(name)
            if record:
                q = meta.setdefault("quick_checks_against_change", {})
                if "first_result" not in meta:
                    meta["first_result"] = dict(q)
                q[prop] = {"exit": r.returncode, "violations": nv, "first": first[0][:400] if first else ""}
                meta.setdefault("ran", []).append("tools/seeded_all.py --record %s" % name)
                with open(os.path.join(d, "meta.json"), "w") as f:
                    json.dump(meta, f, indent=1)
        finally:
            shutil.rmtree(tree, ignore_errors=True)
            shutil.rmtree(os.path.join(VERIF, "found"), ignore_errors=True)
    print("missed:", missed)
    sys.exit(1 if missed else 0)


if __name__ == "__main__":
    main()
