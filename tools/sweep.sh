#!/bin/sh
# usage: tools/sweep.sh "<seeds>" [ids...]   -- run quick checks at several VERIF_SEED values, print exit codes
SEEDS=${1:-"1 2 3 7 12345"}; shift
IDS=${@:-"C01 C02 C03 C04 C05 C06 C07 C08 C09 C10 C11 C12 C13 C14 C15 C16 C17 C18 C19 C20"}
cd "$(dirname "$0")/.."
for s in $SEEDS; do for id in $IDS; do
  out=$(VERIF_SEED=$s VERIF_SWEEP=1 ./check $id --tier quick 2>&1); rc=$?
  echo "seed=$s $id rc=$rc $(echo "$out" | grep -c VIOLATION) $(echo "$out" | grep '^C[0-9]' | sed 's/;.*//')"
  [ $rc -ne 0 ] && echo "$out" | grep -v '^C[0-9]' | head -5
done; done
