#!/usr/bin/env python3-vt
"""Validate MANIFEST.json and evidence/*.json against the schemas in /root/.vp (dev helper)."""
import json, sys, glob, jsonschema
ms = json.load(open('/root/.vp/MANIFEST.schema.json'))
es = json.load(open('/root/.vp/EVIDENCE.schema.json'))
m = json.load(open('/verif/MANIFEST.json'))
jsonschema.validate(m, ms)
print("MANIFEST ok:", len(m['checks']), "checks,", len(m.get('not_applicable', [])), "not applicable")
bad = 0
for p in sorted(glob.glob('/verif/evidence/*.json')):
    try:
        jsonschema.validate(json.load(open(p)), es)
        print("ok", p)
    except Exception as e:
        bad += 1
        print("BAD", p, str(e)[:300])
sys.exit(1 if bad else 0)
