#!/usr/bin/env python3
"""Rewrite the table of seeded changes at the end of DESIGN.md section 9.5 from seeded/*/meta.json."""
import glob
import json
import os

VERIF = os.path.dirname(os.path.dirname(os.path.abspath(__file__)))
# changes that the property's quick check did not report in the version that existed when the change arrived
MISSED = set("""C10-1 C07-2 C02-2 C20-3 C20-4 C09-3 C07-3 C08-3 C04-3 C10-3
C01-5 C02-5 C02-6 C03-5 C03-6 C04-6 C06-5 C07-5 C09-5 C11-6 C13-6 C15-5 C15-6 C16-6 C17-5 C18-6 C20-5
C01-7 C02-8 C04-7 C04-8 C06-8 C07-8 C08-8 C10-7 C10-8 C12-8 C14-7 C14-8 C17-8 C18-8 C19-7 C19-8""".split())


def main():
    p = os.path.join(VERIF, "DESIGN.md")
    s = open(p).read()
    head = "\n| Name | Change | Needs | Quick check |"
    i = s.index(head)
    rows = []
    for f in sorted(glob.glob(os.path.join(VERIF, "seeded", "*", "meta.json"))):
        m = json.load(open(f))
        name = os.path.basename(os.path.dirname(f))
        det = m.get("quick_checks_against_change", {})
        res = "; ".join("%s: %s" % (k, "detected (%d)" % v["violations"] if v["exit"] == 1 else "NOT detected (exit %d)" % v["exit"])
                        for k, v in det.items())
        if name in MISSED:
            res += " (after strengthening)"
        rows.append("| %s | %s | %s | %s |" % (name, (m.get("summary") or "")[:150].replace("|", "/").replace("\n", " "),
                                              (m.get("needs") or "")[:130].replace("|", "/").replace("\n", " "), res))
    s = s[:i] + head + "\n|------|--------|-------|-------------|\n" + "\n".join(rows) + "\n"
    open(p, "w").write(s)
    print(len(rows), "rows;", sum(1 for r in rows if "NOT detected" in r), "not detected")


if __name__ == "__main__":
    main()
