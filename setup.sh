#!/bin/sh
# Offline set-up: make sure hypothesis is importable by /venv/bin/python, install atheris
# beside it (target dir, not into /venv), pre-build the engine libraries from /repo.
set -e
cd "$(dirname "$0")"
WH=/opt/veriftools/wheels
if ! /venv/bin/python -c "import hypothesis" 2>/dev/null; then
  /venv/bin/pip install --no-index --find-links "$WH" hypothesis >/dev/null
fi
mkdir -p .deps .build .work found
if ! PYTHONPATH=.deps /venv/bin/python -c "import atheris" 2>/dev/null; then
  /venv/bin/pip install --no-index --find-links "$WH" --target .deps atheris >/dev/null 2>&1 || echo "setup: atheris not installed (thorough-tier fuzzing of C18/C19 will be skipped)"
fi
/venv/bin/python -m vlib.build plain san || { echo "setup: engine build failed"; exit 1; }
echo "setup: ok"
