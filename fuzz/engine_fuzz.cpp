// libFuzzer target for the native engine's C entry points (property C11).
// Bytes are decoded (FuzzedDataProvider) into VALID arguments of engineexport_initialize_grid/_graph and a
// lifecycle-respecting call sequence; ASan + UBSan + _GLIBCXX_ASSERTIONS are the oracle.
#include <cstdint>
#include <cstddef>
#include <string>
#include <vector>
#include <cmath>
#include <fuzzer/FuzzedDataProvider.h>

#include "engine.cpp"   // the tree's engine, found through -I <repo>/src/strengths/engines/strengths_engine/src

static const char * POLICIES[] = {"on_t_sample", "on_iteration", "on_interval", "no_sampling"};
static const char * MODES[]    = {"auto", "none", "Poisson", "redist"};
static const char * OPTIONS[]  = {"euler", "tauleap", "gillespie"};
static const char * BCS[]      = {"reflecting", "periodical"};

static double amount(FuzzedDataProvider & fdp)
  {
  switch (fdp.ConsumeIntegralInRange<int>(0, 5))
    {
    case 0 : return 0.0;
    case 1 : return fdp.ConsumeIntegralInRange<int>(1, 60) / 128.0;          // below one molecule
    case 2 : return fdp.ConsumeIntegralInRange<int>(1, 300);                  // whole molecules
    case 3 : return fdp.ConsumeIntegralInRange<int>(100 * 64, 400 * 64) / 64.0; // above the normal switch
    default: return fdp.ConsumeIntegralInRange<int>(1, 4000) / 16.0;
    }
  }

extern "C" int LLVMFuzzerTestOneInput(const uint8_t * data, size_t size)
  {
  FuzzedDataProvider fdp(data, size);
  bool graph = fdp.ConsumeBool();
  int n_species = fdp.ConsumeIntegralInRange<int>(1, 3);
  int n_rev     = fdp.ConsumeIntegralInRange<int>(0, 2);
  int n_reactions = 2 * n_rev;                      // forward + reverse, as the Python layer passes them
  int n_env = fdp.ConsumeIntegralInRange<int>(1, 3);
  int w = 1, h = 1, d = 1, n_meshes = 1, n_edges = 0;
  std::vector<int> edge_i, edge_j;
  std::vector<double> edge_sfc, edge_dst, vols;
  if (graph)
    {
    n_meshes = fdp.ConsumeIntegralInRange<int>(1, 6);
    n_edges  = fdp.ConsumeIntegralInRange<int>(0, 8);
    for (int e = 0; e < n_edges; e++)
      {
      edge_i.push_back(fdp.ConsumeIntegralInRange<int>(0, n_meshes - 1));   // self-loops and parallel edges allowed
      edge_j.push_back(fdp.ConsumeIntegralInRange<int>(0, n_meshes - 1));
      edge_sfc.push_back(fdp.ConsumeIntegralInRange<int>(1, 40) / 8.0);
      edge_dst.push_back(fdp.ConsumeIntegralInRange<int>(1, 40) / 8.0);
      }
    for (int i = 0; i < n_meshes; i++) vols.push_back(fdp.ConsumeIntegralInRange<int>(1, 64) / 8.0);
    }
  else
    {
    w = fdp.ConsumeIntegralInRange<int>(1, 4);
    h = fdp.ConsumeIntegralInRange<int>(1, 3);
    d = fdp.ConsumeIntegralInRange<int>(1, 3);
    n_meshes = w * h * d;
    }
  std::vector<double> state(n_meshes * n_species);
  std::vector<int> chstt(n_meshes * n_species), env(n_meshes);
  for (auto & v : state) v = amount(fdp);
  for (auto & v : chstt) v = (fdp.ConsumeIntegralInRange<int>(0, 5) == 0) ? 1 : 0;
  for (auto & v : env)   v = fdp.ConsumeIntegralInRange<int>(0, n_env - 1);
  std::vector<double> k(n_env * n_reactions), D(n_species * n_env);
  for (auto & v : k) v = (fdp.ConsumeIntegralInRange<int>(0, 4) == 0) ? 0.0 : fdp.ConsumeIntegralInRange<int>(1, 64) / 64.0;
  for (auto & v : D) v = (fdp.ConsumeIntegralInRange<int>(0, 3) == 0) ? 0.0 : fdp.ConsumeIntegralInRange<int>(1, 64) / 16.0;
  std::vector<int> sub(n_species * n_reactions, 0), sto(n_species * n_reactions, 0);
  for (int r = 0; r < n_rev; r++)
    {
    // molecule-number-conserving stoichiometry (products = a rotation of the reactants) so that no
    // population can explode numerically during the run: the run stays a *valid* script
    std::vector<int> q(n_species);
    for (int s = 0; s < n_species; s++) q[s] = fdp.ConsumeIntegralInRange<int>(0, 2);
    int shift = fdp.ConsumeIntegralInRange<int>(0, n_species - 1);
    for (int s = 0; s < n_species; s++)
      {
      int p = q[(s + shift) % n_species];
      sub[s * n_reactions + 2 * r]     = q[s];  sto[s * n_reactions + 2 * r]     = p - q[s];
      sub[s * n_reactions + 2 * r + 1] = p;     sto[s * n_reactions + 2 * r + 1] = q[s] - p;
      }
    }
  // keep fixed-step stochastic runs tame (k x^order dt << x): a time step that is too coarse for the kinetics
  // makes tau-leap populations oscillate to +-infinity, which is a user error, not a valid script
  for (int r = 0; r < n_reactions; r++)
    {
    int order = 0;
    for (int s = 0; s < n_species; s++) order += sub[s * n_reactions + r];
    for (int e = 0; e < n_env; e++) k[e * n_reactions + r] *= std::pow(400.0, -(order > 1 ? order - 1 : 0)) * std::pow(1.5, order - 1);
    }
  double dt = fdp.ConsumeIntegralInRange<int>(1, 64) / 4096.0;
  int n_sample = fdp.ConsumeIntegralInRange<int>(1, 6);
  std::vector<double> t_sample;
  double tt = fdp.ConsumeBool() ? 0.0 : dt * fdp.ConsumeIntegralInRange<int>(0, 8) / 4.0;
  for (int i = 0; i < n_sample; i++)
    {
    t_sample.push_back(tt);
    tt += dt * fdp.ConsumeIntegralInRange<int>(0, 12) / 4.0;
    }
  double t_max = fdp.ConsumeBool() ? t_sample.back() : dt * fdp.ConsumeIntegralInRange<int>(0, 80) / 4.0;
  double interval = dt * fdp.ConsumeIntegralInRange<int>(1, 20) / 4.0;
  const char * policy = POLICIES[fdp.ConsumeIntegralInRange<int>(0, 3)];
  const char * mode   = MODES[fdp.ConsumeIntegralInRange<int>(0, 3)];
  const char * option = OPTIONS[fdp.ConsumeIntegralInRange<int>(0, 2)];
  int seed = fdp.ConsumeIntegral<int>();
  const char * bx = BCS[fdp.ConsumeIntegralInRange<int>(0, 1)];
  const char * by = BCS[fdp.ConsumeIntegralInRange<int>(0, 1)];
  const char * bz = BCS[fdp.ConsumeIntegralInRange<int>(0, 1)];

  auto init = [&]() -> int
    {
    if (graph)
      return engineexport_initialize_graph(n_meshes, n_species, n_reactions, n_env, n_edges, edge_i.data(), edge_j.data(),
                                           edge_sfc.data(), edge_dst.data(), state.data(), chstt.data(), env.data(), vols.data(),
                                           k.data(), sub.data(), sto.data(), D.data(), n_sample, t_sample.data(), policy, interval,
                                           t_max, dt, seed, mode, option);
    return engineexport_initialize_grid(w, h, d, n_species, n_reactions, n_env, state.data(), chstt.data(), env.data(), 1.5,
                                        k.data(), sub.data(), sto.data(), D.data(), bx, by, bz, n_sample, t_sample.data(), policy,
                                        interval, t_max, dt, seed, mode, option);
    };
  if (init() != 0) return 0;
  bool live = true;
  int n_ops = fdp.ConsumeIntegralInRange<int>(0, 24);
  for (int o = 0; o < n_ops; o++)
    {
    int op = fdp.ConsumeIntegralInRange<int>(0, 9);
    if (!live)
      {
      if (op < 5) { engineexport_finalize(); continue; }
      if (init() != 0) return 0;
      live = true;
      continue;
      }
    switch (op)
      {
      case 0 : engineexport_iterate(); break;
      case 1 : engineexport_iterate_n(fdp.ConsumeIntegralInRange<int>(0, 60)); break;
      case 2 : engineexport_run(0); break;
      case 3 : engineexport_sample(); break;
      case 4 : (void) engineexport_get_progress(); (void) engineexport_get_time(); break;
      case 5 :
        {
        int ns = engineexport_get_nsamples();
        std::vector<double> tbuf(ns), dbuf(static_cast<size_t>(ns) * n_meshes * n_species);
        engineexport_get_tsample(tbuf.data());
        engineexport_get_trajectory(dbuf.data());
        break;
        }
      case 6 :
        {
        std::vector<double> sbuf(n_meshes * n_species);
        engineexport_get_state(sbuf.data());
        break;
        }
      case 7 : engineexport_finalize(); live = false; break;
      case 8 : engineexport_finalize(); if (init() != 0) return 0; break;   // release, then a new set-up
      default: engineexport_iterate_n(200); break;                            // long enough to exhaust the sample list
      }
    }
  engineexport_finalize();
  engineexport_finalize();
  return 0;
  }
