#!/venv/bin/python
"""Atheris target (property C19): reaction equation text vs a three-valued reference parser."""
import os
import re
import sys

sys.path.insert(0, os.path.dirname(os.path.dirname(os.path.abspath(__file__))))
import atheris  # noqa: E402

with atheris.instrument_imports(include=["strengths"]):
    from vlib import sut  # noqa: F401
    import strengths as S

TOKENS = ["A", "B", "C2", "x", "µ", "->", "->", "+", "+", " ", " ", "\t", "0", "1", "2", "3", "10", "-", ">", "-1", "2A", "A2", ",", "=>", "<-"]


class Mismatch(Exception):
    pass


def ref_parse(text):
    """-> ("ACCEPT", sub, prod) | ("REJECT", why) | ("UNSPEC", why)   (documented form: 'a A + b B -> c C')"""
    sides = text.split("->")
    if len(sides) != 2:
        return ("REJECT", "not exactly one '->'")
    out = []
    for side in sides:
        d = {}
        terms = side.split("+")
        if not (len(terms) == 1 and terms[0].strip() == ""):
            for term in terms:
                tok = term.split()
                if len(tok) == 0:
                    return ("REJECT", "empty term")
                if len(tok) > 2:
                    return ("REJECT", "term with more than two tokens (missing '+')")
                if len(tok) == 2:
                    if not re.fullmatch(r"[0-9]+", tok[0]):
                        if re.fullmatch(r"[+-]?\d+", tok[0]) or tok[0].isdigit():
                            return ("UNSPEC", "signed or non-ASCII coefficient")
                        return ("REJECT", "coefficient is not an integer")
                    co, lb = int(tok[0]), tok[1]
                else:
                    co, lb = 1, tok[0]
                    if re.fullmatch(r"[+-]?\d+", lb) or lb.isdigit():
                        return ("UNSPEC", "a bare number as a term")
                d[lb] = d.get(lb, 0) + co
        out.append(d)
    return ("ACCEPT", out[0], out[1])


def test_one(data):
    fdp = atheris.FuzzedDataProvider(data)
    n = fdp.ConsumeIntInRange(0, 14)
    parts = []
    for _ in range(n):
        if fdp.ConsumeIntInRange(0, 19) == 0:
            parts.append(fdp.ConsumeUnicodeNoSurrogates(2))
        else:
            parts.append(TOKENS[fdp.ConsumeIntInRange(0, len(TOKENS) - 1)])
    text = "".join(parts)
    ref = ref_parse(text)
    if ref[0] == "UNSPEC":
        return
    try:
        r = S.Reaction(text)
        raised = None
    except Exception as e:  # noqa: BLE001
        raised = e
    if ref[0] == "REJECT":
        if raised is None:
            raise Mismatch("Reaction(%r) accepted (%r -> %r), reference: REJECT %s" % (text, r.substrates, r.products, ref[1]))
        return
    if raised is not None:
        raise Mismatch("Reaction(%r) raised %r, reference accepts it" % (text, raised))
    labels = sorted(set(ref[1]) | set(ref[2]) | set(r.substrates) | set(r.products))
    if r.ssto(labels) != [ref[1].get(l, 0) for l in labels] or r.psto(labels) != [ref[2].get(l, 0) for l in labels]:
        raise Mismatch("Reaction(%r): %r -> %r, reference %r -> %r" % (text, r.substrates, r.products, ref[1], ref[2]))
    if r.order() != sum(ref[1].values()) or r.rorder() != sum(ref[2].values()):
        raise Mismatch("Reaction(%r): orders %d/%d" % (text, r.order(), r.rorder()))
    r2 = S.Reaction(r.to_string())
    if r2.ssto(labels) != r.ssto(labels) or r2.psto(labels) != r.psto(labels):
        raise Mismatch("print/parse round trip of %r changed the stoichiometry" % text)


if __name__ == "__main__":
    atheris.Setup(sys.argv, test_one)
    atheris.Fuzz()
