#!/venv/bin/python
"""Atheris target (property C18): unit / quantity text vs the three-valued reference grammar.
usage: PYTHONPATH=/verif/.deps /venv/bin/python fuzz/unit_text_fuzz.py [libFuzzer args] [corpus dir]"""
import os
import sys

sys.path.insert(0, os.path.dirname(os.path.dirname(os.path.abspath(__file__))))
import atheris  # noqa: E402

with atheris.instrument_imports(include=["strengths"]):
    from vlib import sut  # noqa: F401
    import strengths as S
from vlib import si, unitgrammar as G  # noqa: E402

TOKENS = list(G.ALL_SPELLINGS) + [".", "/", ".", "/", "-", "+", " ", "\t", "0", "1", "2", "3", "5", "9", "12", "-1", "-2", "-3",
                                  "x", "Mol", "sec", "µ", "u", "k", "e", "1e3", "2.5", "-3e-4", ",", "_", "^", "(", ")"]


def build(fdp):
    n = fdp.ConsumeIntInRange(0, 9)
    parts = []
    for _ in range(n):
        if fdp.ConsumeIntInRange(0, 15) == 0:
            parts.append(fdp.ConsumeUnicodeNoSurrogates(3))
        else:
            parts.append(TOKENS[fdp.ConsumeIntInRange(0, len(TOKENS) - 1)])
    return "".join(parts)


class Mismatch(Exception):
    pass


def check_unit(text):
    ref = G.parse_unit(text)
    if ref[0] == "UNSPEC":
        return
    try:
        u = S.parse_units(text)
        raised = None
    except Exception as e:  # noqa: BLE001
        raised = e
    if ref[0] == "REJECT":
        if raised is None:
            raise Mismatch("parse_units(%r) accepted, reference grammar: REJECT %s" % (text, ref[1]))
        return
    if raised is not None:
        raise Mismatch("parse_units(%r) raised %r, reference grammar accepts it" % (text, raised))
    _, dim, units, scale = ref
    gd, gs = si.dimdict(u.dim), si.sysdict(u.sys)
    if gd != dim or any(dim[k] != 0 and gs[k] != units[k] for k in si.KINDS) or si.scale(gs, gd) != scale:
        raise Mismatch("parse_units(%r) = %s^%s, reference %s^%s" % (text, gs, gd, units, dim))
    # print -> parse round trip
    back = S.parse_units(str(u))
    if not (back == u):
        raise Mismatch("str/parse round trip of %r changed the unit" % text)


def check_quantity(text):
    ref = G.parse_quantity(text)
    if ref[0] == "UNSPEC":
        return
    try:
        q = S.parse_unitvalue(text)
        raised = None
    except Exception as e:  # noqa: BLE001
        raised = e
    if ref[0] == "REJECT":
        if raised is None:
            raise Mismatch("parse_unitvalue(%r) accepted (%s), reference grammar: REJECT %s" % (text, q, ref[1]))
        return
    if raised is not None:
        raise Mismatch("parse_unitvalue(%r) raised %r, reference grammar accepts it" % (text, raised))
    if q.value != ref[1] and not (q.value != q.value):
        raise Mismatch("parse_unitvalue(%r).value = %r, expected %r" % (text, q.value, ref[1]))
    if si.dimdict(q.units.dim) != ref[2]:
        raise Mismatch("parse_unitvalue(%r) dimension %s, expected %s" % (text, si.dimdict(q.units.dim), ref[2]))


def test_one(data):
    fdp = atheris.FuzzedDataProvider(data)
    mode = fdp.ConsumeIntInRange(0, 2)
    text = build(fdp)
    if mode == 0:
        check_unit(text)
    elif mode == 1:
        num = ["1", "2.5", "-3e-4", "+1.3e-10", "a", "1e", ""][fdp.ConsumeIntInRange(0, 6)]
        ws = [" ", "", "  ", "\t"][fdp.ConsumeIntInRange(0, 3)]
        check_quantity(num + ws + text)
    else:
        check_quantity(text)


if __name__ == "__main__":
    atheris.Setup(sys.argv, test_one)
    atheris.Fuzz()
